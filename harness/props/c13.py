"""C13 — grouped, conditional and entropy statistics are compositions of pc and pcDelta."""
import json
import math
import warnings
from fractions import Fraction

import numpy as np
import pandas as pd

from harness import core, gen

TRUSTED = [
    "Lean 4.33.0 kernel; axioms propext, Classical.choice, Quot.sound only (audited per theorem)",
    "pandas groupby / filter / apply / value_counts are modelled by groupRows over the sorted distinct keys; tied by correspondence",
    "logarithms: theorems are over the reals (Real.log / Real.logb); Python floats are compared within 1e-12 relative",
    "rational parts (pc, pcDelta) are compared exactly through float(Fraction)",
]


def close(a, b, tol=1e-12):
    if a is None or b is None:
        return a is None and b is None
    if isinstance(a, float) and math.isnan(a):
        return isinstance(b, float) and math.isnan(b)
    if isinstance(b, float) and math.isnan(b):
        return False
    if math.isinf(a) or math.isinf(b):
        return a == b
    return abs(a - b) <= tol * max(1.0, abs(a), abs(b))


def run(chk):
    import pyrepseq.stats as st
    import pyrepseq.distance as ds
    import pyrepseq.entropy as en
    warnings.simplefilter("ignore")
    chk.trusted_base = TRUSTED
    chk.assumptions = ["group weights positive", "bases positive"]
    chk.rule = ("tables with string and numeric keys, unsorted keys, singleton groups, 1-2 grouping columns, single/multiple feature "
                "columns, positive weights, bases {2, e, 10, None, 1/2, 1/10, 3}; unique and repeated row labels; bins as edge vectors and bins = 0; non-trivial = distinct table "
                "with at least one group of >= 2 members")
    chk.build_and_audit()
    rng = chk.rng
    thorough = chk.tier == "thorough"
    ops, checks = [], []
    vals = ["CA", "CB", "CC", "CAD", "CADE"]
    n_tab = 60 if not thorough else 600
    for t in range(n_tab):
        n = rng.randint(1, 14)
        nk = rng.randint(1, 4)
        numeric = rng.random() < 0.3
        keypool = [10, 2, 33, 4][:nk] if numeric else ["b", "a", "zz", "C"][:nk]
        keys = [rng.choice(keypool) for _ in range(n)]
        feat = [rng.choice(vals[:rng.randint(1, 5)]) for _ in range(n)]
        tvals = ["x", "y"]
        if t % 5 == 3:
            # feature texts containing a dot (version-like / decimal strings): different (s, t) pairs whose dotted concatenations agree
            feat = [rng.choice(["7.1", "7", "1"]) for _ in range(n)]
            tvals = ["2", "1.2"]
        # row labels: unique in any order, or REPEATED across groups (tables concatenated without ignore_index): rows are rows
        idx = rng.sample(range(100), n) if rng.random() < 0.6 else [rng.randrange(max(2, n // 2)) for _ in range(n)]
        df = pd.DataFrame({"g": keys, "s": feat, "t": [rng.choice(tvals) for _ in range(n)]}, index=idx)
        # the model sorts string keys; numeric keys are zero-padded so that the string order equals the numeric order
        skey = (lambda k: f"{k:06d}") if numeric else (lambda k: k)
        tbl = [[skey(k), v] for k, v in zip(keys, feat)]
        sorted_keys = sorted(set(keys))
        big = [k for k in sorted_keys if keys.count(k) > 1]
        nt = bool(big)
        meta = {"keys": [str(k) for k in keys], "values": feat}
        # pc_conditional, uniform and weighted
        ops.append({"op": "pc_conditional", "tbl": tbl})
        checks.append(("pc_conditional", meta, core.call_real(lambda: float(st.pc_conditional(df, "g", "s"))), nt))
        if big:
            w = [rng.choice([1, 2, 3, 0.5]) for _ in big]
            ops.append({"op": "pc_conditional", "tbl": tbl, "weights": [core.fstr(x) for x in w]})
            warr = np.array(w, dtype=float) if rng.random() < 0.5 else w
            wsnap = list(map(float, w))
            checks.append(("pc_conditional[weights]", {**meta, "weights": w},
                           core.call_real(lambda: float(st.pc_conditional(df, ["g"], "s", group_weights=warr))), nt))
            if list(map(float, warr)) != wsnap:
                chk.violation("C13|pc_conditional|mutates-weights", "pc_conditional modified the caller's group_weights array", {**meta, "weights": w})
        # pc_grouped_cross
        ops.append({"op": "pc_grouped_cross", "tbl": tbl})
        checks.append(("pc_grouped_cross", meta, core.call_real(lambda: st.pc_grouped_cross(df, "g", "s")), nt))
        # two grouping columns / list-valued `on` (pc_joint path): compared with the same statistics on an explicit combined key
        if n >= 2:
            df2 = df.assign(gg=[f"{a}|{b}" for a, b in zip(df["g"], df["t"])], st=[f"{a}_{b}" for a, b in zip(df["s"], df["t"])])
            r_two = core.call_real(lambda: float(st.pc_conditional(df2, ["g", "t"], "s")))
            r_one = core.call_real(lambda: float(st.pc_conditional(df2, "gg", "s")))
            r_on = core.call_real(lambda: float(st.pc_conditional(df2, "g", ["s", "t"])))
            r_on1 = core.call_real(lambda: float(st.pc_conditional(df2, "g", "st")))
            for nm, x, y in (("two-grouping-columns", r_two, r_one), ("list-on", r_on, r_on1)):
                # (the two calls visit the groups in different orders - tuple keys vs joined strings - so the float mean may differ in
                #  its last bit: compared to 1e-12, not for bit equality)
                same = x == y or (x[0] == y[0] == "ok" and ((math.isnan(x[1]) and math.isnan(y[1])) or abs(x[1] - y[1]) <= 1e-12 * max(1.0, abs(y[1]))))
                if not same:
                    chk.violation(f"C13|pc_conditional|{nm}", f"pc_conditional with {nm} = {x} differs from the same statistic on the combined key = {y}", meta)
            if len(sorted_keys) > 1:
                g1 = core.call_real(lambda: st.pc_grouped_cross(df2, "g", ["s", "t"]).values.tolist())
                g2 = core.call_real(lambda: st.pc_grouped_cross(df2, "g", "st").values.tolist())
                if str(g1) != str(g2):
                    chk.violation("C13|pc_grouped_cross|list-on", "pc_grouped_cross with a list of feature columns differs from the joined column", meta)
        # MISSING feature cells (unpaired reads: one chain absent): with a list of feature columns a missing cell is one more value
        # of its column, and a group is kept when it has two ROWS, however many of its cells are missing
        if n >= 3 and t % 3 == 0:
            sm = [None if (i % 3 != 1 or rng.random() < 0.3) else v for i, v in enumerate(feat)]
            dfm = pd.DataFrame({"g": keys, "s": sm, "t": [rng.choice(["x", "y"]) for _ in range(n)]}, index=idx)
            dfm2 = dfm.assign(st=[("" if a is None else a) + "_" + b for a, b in zip(sm, dfm["t"])])
            r_m = core.call_real(lambda: float(st.pc_conditional(dfm, "g", ["s", "t"])))
            r_j = core.call_real(lambda: float(st.pc_conditional(dfm2, "g", "st")))
            chk.count("pc_conditional:missing-feature-cells")
            same = r_m == r_j or (r_m[0] == r_j[0] == "ok" and ((math.isnan(r_m[1]) and math.isnan(r_j[1])) or abs(r_m[1] - r_j[1]) <= 1e-12))
            if not same:
                chk.violation("C13|pc_conditional|missing-feature-cells", f"pc_conditional(on=[s, t]) with missing cells in s = {r_m}; the same rows with the "
                              f"missing cell written as an empty text give {r_j}", {**meta, "s": sm, "t": list(dfm["t"])})
            if big:
                wm = [rng.choice([1, 2, 3]) for _ in big]
                r_mw = core.call_real(lambda: float(st.pc_conditional(dfm, "g", ["s", "t"], group_weights=wm)))
                r_jw = core.call_real(lambda: float(st.pc_conditional(dfm2, "g", "st", group_weights=wm)))
                samew = r_mw == r_jw or (r_mw[0] == r_jw[0] == "ok" and ((math.isnan(r_mw[1]) and math.isnan(r_jw[1])) or abs(r_mw[1] - r_jw[1]) <= 1e-12))
                if not samew:
                    chk.violation("C13|pc_conditional|missing-feature-cells-weighted", f"pc_conditional(on=[s, t], group_weights) with missing cells in s = {r_mw}; "
                                  f"with the missing cell written as an empty text: {r_jw}", {**meta, "s": sm, "t": list(dfm["t"]), "weights": wm})
        # several feature columns of DIFFERENT numeric kinds (an integer id beside a float), a missing float cell in one group only:
        # a row's label depends on the row alone, so rows that agree coincide across groups
        if t % 6 == 1:
            ng = rng.randint(6, 12)
            dfn = pd.DataFrame({"g": [rng.choice(["a", "b"]) for _ in range(ng)] + ["a", "b", "a", "b"],
                                "i": [rng.choice([1, 2]) for _ in range(ng)] + [1, 1, 2, 2],
                                "f": [rng.choice([2.5, 0.5]) for _ in range(ng)] + [2.5, 2.5, float("nan"), 0.5]})
            lab = ["" if v != v else repr(float(v)) for v in dfn["f"]]
            dfl = dfn.assign(lab=[f"{int(i_)}|{l_}" for i_, l_ in zip(dfn["i"], lab)])
            r_n = core.call_real(lambda: st.pc_grouped_cross(dfn, "g", ["i", "f"]).values.tolist())
            r_l = core.call_real(lambda: st.pc_grouped_cross(dfl, "g", "lab").values.tolist())
            chk.count("pc_grouped_cross:int-beside-float")
            eq_ = r_n[0] == r_l[0] == "ok" and all((x_ != x_ and y_ != y_) or abs(x_ - y_) <= 1e-12 for ra, rb in zip(r_n[1], r_l[1]) for x_, y_ in zip(ra, rb))
            if not eq_:
                chk.violation("C13|pc_grouped_cross|int-beside-float", f"pc_grouped_cross(on=[int column, float column]) = {str(r_n)[:200]}; the same rows keyed "
                              f"by one label per row give {str(r_l)[:200]}", {"g": list(dfn["g"]), "i": list(dfn["i"]), "f": [None if v != v else v for v in dfn["f"]]})
        # group rows (what groupby hands to the statistics)
        ops.append({"op": "group_rows", "tbl": tbl})
        checks.append(("groupby", meta, core.call_real(lambda: [[skey(k), list(d["s"])] for k, d in sorted(list(df.groupby("g")))]), nt))
        # pcDelta_grouped / cross, edge vectors and bins = 0: compared with direct pcDelta of the group rows (composition)
        # edge vectors as a list and as a NumPy array; the bins = 0 form; edges whose LAST one is a distance that occurs (the last bin is closed)
        for bins in ([0, 1, 2, 3, 4], 0, np.arange(0, 5), [0, 1, 2]):
            real_g = core.call_real(lambda: ds.pcDelta_grouped(df, "g", "s", bins=bins))
            real_c = core.call_real(lambda: ds.pcDelta_grouped_cross(df, "g", "s", condensed=True, bins=bins)) if len(sorted_keys) > 1 else None
            is0 = isinstance(bins, int) and bins == 0
            real_sq = core.call_real(lambda: ds.pcDelta_grouped_cross(df, "g", "s", bins=0)) if (is0 and len(sorted_keys) > 1) else None
            checks.append(("pcDelta_grouped*", {**meta, "bins": 0 if is0 else [int(b) for b in bins]}, (real_g, real_c, real_sq, df, sorted_keys), nt))
            ops.append({"op": "group_rows", "tbl": tbl})
        # entropies
        base = rng.choice([2.0, math.e, 10.0, None, 0.5, 0.1, 3])      # a base below 1 is a base too (the entropy changes sign)
        checks.append(("entropy", {**meta, "base": base}, (df, base), nt))
        ops.append({"op": "pc1", "xs": feat if len(feat) >= 2 else ["a", "a"]})

    ans = core.run_driver_parallel(ops)
    for (label, meta, real, nt), a, op in zip(checks, ans, ops):
        chk.case(sample={"label": label, **{k: v for k, v in meta.items() if len(str(v)) < 200}} if chk.evaluations % 60 == 0 else None,
                 nontrivial_key=(label, json.dumps(meta, sort_keys=True, default=str)[:700]) if nt else None)
        chk.count(label)
        if label.startswith("pc_conditional"):
            want = None if a[1] is None else float(Fraction(a[1]))
            got = real[1] if real[0] == "ok" else None
            if real[0] != "ok" or not close(got if not (isinstance(got, float) and math.isnan(got)) else None, want):
                chk.violation(f"C13|{label}|" + (f"raises-{real[1]}" if real[0] == "error" else "differs"),
                              f"{label} = {real} but the w^2-weighted mean of pc over groups with >= 2 members is {a[1]}",
                              {**meta, "real": str(real), "model": a[1]})
        elif label == "pc_grouped_cross":
            if real[0] != "ok":
                if len(set(meta["keys"])) >= 2:
                    chk.violation(f"C13|pc_grouped_cross|raises-{real[1]}", "pc_grouped_cross raised", meta)
                continue
            mat = real[1]
            mk, mm = a[1]["keys"], a[1]["m"]
            ok = [str(x) if not isinstance(x, (int, np.integer)) else f"{int(x):06d}" for x in mat.index] == mk and list(mat.index) == list(mat.columns)
            for i in range(len(mk)):
                for j in range(len(mk)):
                    v = float(mat.iloc[i, j])
                    w = mm[i][j]
                    if w is None:
                        ok = ok and math.isnan(v)
                    else:
                        ok = ok and v == float(Fraction(w))
            if not ok:
                chk.violation("C13|pc_grouped_cross|differs", "pc_grouped_cross is not the symmetric matrix of pc(group g, group h) with undefined diagonal",
                              {**meta, "real": mat.values.tolist(), "model": mm})
        elif label == "groupby":
            if real != ("ok", a[1]):
                chk.broken_obligations.append(f"corr:groupby~groupRows differs: real={str(real)[:200]} model={str(a)[:200]}")
        elif label == "pcDelta_grouped*":
            real_g, real_c, real_sq, df, skeys = real
            bins = meta["bins"]
            groups = {k: v for k, v in ((g[0], g[1]) for g in a[1])}
            gl = list(groups.values())
            # per group: pcDelta of that group alone
            if real_g[0] != "ok":
                chk.violation(f"C13|pcDelta_grouped|bins={'0' if bins == 0 else 'edges'}|raises-{real_g[1]}", "pcDelta_grouped raised", meta)
            else:
                fr = real_g[1]
                okg = len(fr) == len(gl)
                for i, rows in enumerate(gl):
                    want = core.call_real(lambda: np.atleast_1d(ds.pcDelta(rows, bins=bins)).astype(float).tolist())
                    got = fr.iloc[i].astype(float).tolist() if okg and fr.shape[1] > 0 else []
                    okg = okg and want[0] == "ok" and len(got) == len(want[1]) and all(close(x, y) for x, y in zip(got, want[1]))
                if okg and [str(k) for k in fr.index] != [str(k) for k in skeys]:
                    chk.violation("C13|pcDelta_grouped|row-labels", f"pcDelta_grouped rows are labelled {list(fr.index)}, the groups are {skeys}", meta)
                if not okg:
                    chk.violation(f"C13|pcDelta_grouped|bins={'0' if bins == 0 else 'edges'}|differs",
                                  f"pcDelta_grouped(bins={bins}) does not give for each group the pcDelta of that group alone "
                                  f"(shape {fr.shape})", {**meta, "real": fr.values.tolist()})
            if real_c is not None:
                if real_c[0] != "ok":
                    chk.violation(f"C13|pcDelta_grouped_cross|condensed|raises-{real_c[1]}", "pcDelta_grouped_cross(condensed=True) raised", meta)
                else:
                    fr = real_c[1]
                    pairs = [(i, j) for i in range(len(gl)) for j in range(i + 1, len(gl))]
                    okc = len(fr) == len(pairs)
                    for r, (i, j) in enumerate(pairs):
                        want = np.atleast_1d(ds.pcDelta(gl[i], gl[j], bins=bins)).astype(float).tolist()
                        got = fr.iloc[r].astype(float).tolist() if okc else []
                        okc = okc and len(got) == len(want) and all(close(x, y) for x, y in zip(got, want))
                    if not okc:
                        chk.violation("C13|pcDelta_grouped_cross|condensed|differs",
                                      "pcDelta_grouped_cross(condensed) is not the two-collection pcDelta of each pair of groups", meta)
            if real_sq is not None:
                if real_sq[0] != "ok":
                    chk.violation(f"C13|pcDelta_grouped_cross|square|raises-{real_sq[1]}", "pcDelta_grouped_cross(bins=0) square form raised", meta)
                else:
                    fr = real_sq[1]
                    oks = fr.shape == (len(gl), len(gl))
                    for i in range(len(gl)):
                        for j in range(len(gl)):
                            want = float(ds.pcDelta(gl[i], gl[j], bins=0)) if i != j else float(ds.pcDelta(gl[i], bins=0))
                            oks = oks and close(float(fr.iloc[i, j]), want)
                    if oks and ([str(k) for k in fr.index] != [str(k) for k in skeys] or [str(k) for k in fr.columns] != [str(k) for k in skeys]):
                        chk.violation("C13|pcDelta_grouped_cross|square|labels", f"the square form is labelled {list(fr.index)} x {list(fr.columns)}, "
                                      f"the groups are {skeys}: entry [g, h] cannot be found by its groups", meta)
                    if not oks:
                        chk.violation("C13|pcDelta_grouped_cross|square|diagonal", "square pcDelta_grouped_cross(bins=0) does not hold the "
                                      "within-group value on its diagonal / cross values elsewhere", {**meta, "real": fr.values.tolist()})
        elif label == "entropy":
            df, base = real
            if len(df) < 2:
                continue
            lb = 1.0 if base is None else math.log(base)
            inf_ = float("inf") if lb > 0 else float("-inf")      # -log_base(0): +inf for a base above 1, -inf below
            p = st.pc(df["s"])
            pj = st.pc_joint(df, ["s", "t"])
            pcnd = st.pc_conditional(df, "g", "s")
            tests = [("renyi2", lambda: en.renyi2_entropy(df, "s", base=base), -math.log(p) / lb if p > 0 else inf_),
                     ("renyi2-joint", lambda: en.renyi2_entropy(df, ["s", "t"], base=base), -math.log(pj) / lb if pj > 0 else inf_),
                     ("renyi2-conditional", lambda: en.renyi2_entropy(df, "s", by="g", base=base),
                      (-math.log(pcnd) / lb if pcnd > 0 else inf_) if not (isinstance(pcnd, float) and math.isnan(pcnd)) else float("nan"))]
            # conditional entropy with group weights (one weight per group of >= 2 members): -log_base of the WEIGHTED conditional pc
            vc_ = df["g"].value_counts()
            nkept = int((vc_ >= 2).sum())
            if nkept >= 2:
                gw = [1.0 + (i % 3) for i in range(nkept)]
                pcw = core.call_real(lambda: float(st.pc_conditional(df, "g", "s", group_weights=gw)))
                if pcw[0] == "ok" and not math.isnan(pcw[1]):
                    tests.append(("renyi2-conditional-weighted", lambda: en.renyi2_entropy(df, "s", by="g", base=base, group_weights=gw),
                                  -math.log(pcw[1]) / lb if pcw[1] > 0 else inf_))
            if len(df) >= 4 and p > 0:
                sd = st.stdpc(df["s"])
                tests.append(("stdrenyi2", lambda: en.stdrenyi2_entropy(df, "s", base=base), sd / (p * lb)))
                if pj > 0:
                    # (oracle: stdpc of the explicitly joined labels - not stdpc_joint itself)
                    joined = [f"{a_}_{b_}" for a_, b_ in zip(df["s"], df["t"])]
                    sdj = st.stdpc(joined)
                    tests.append(("stdrenyi2-joint", lambda: en.stdrenyi2_entropy(df, ["s", "t"], base=base), sdj / (pj * lb)))
                    tests.append(("stdpc_joint", lambda: st.stdpc_joint(df, ["s", "t"]), sdj))
            for name, fn, want in tests:
                r = core.call_real(lambda: float(fn()))
                if r[0] != "ok" or not close(r[1], float(want), 1e-12):
                    chk.violation(f"C13|{name}|" + (f"raises-{r[1]}" if r[0] == "error" else "differs"),
                                  f"{name}(base={base}) = {r} but -log_base(pc) / stdpc/(pc ln base) = {want}", {**meta})
            # the SAME table object with a feature column overwritten in place (a permutation test does exactly this): the joint
            # statistics are those of the table as it is now
            if len(df) >= 3:
                dfe = df.copy()
                core.call_real(lambda: en.renyi2_entropy(dfe, ["s", "t"], base=base))
                core.call_real(lambda: st.pc_joint(dfe, ["s", "t"]))
                vals = list(dfe["t"])
                dfe["t"] = vals[1:] + vals[:1] if len(set(vals)) > 1 else ["x", "y"] * (len(vals) // 2) + ["x"] * (len(vals) % 2)
                fresh = dfe.copy(deep=True)                       # a new object with the same content: the reference
                for name, fn in (("pc_joint", lambda d: st.pc_joint(d, ["s", "t"])), ("renyi2-joint", lambda d: en.renyi2_entropy(d, ["s", "t"], base=base)),
                                 ("stdrenyi2-joint", lambda d: en.stdrenyi2_entropy(d, ["s", "t"], base=base) if len(d) >= 4 else 0.0),
                                 ("renyi2-conditional-joint", lambda d: en.renyi2_entropy(d, ["s", "t"], by="g", base=base))):
                    r_same = core.call_real(lambda: float(fn(dfe)))
                    r_new = core.call_real(lambda: float(fn(fresh)))
                    same = r_same == r_new or (r_same[0] == r_new[0] == "ok" and (math.isnan(r_same[1]) and math.isnan(r_new[1])))
                    if not same:
                        chk.violation(f"C13|{name}|stale-after-in-place-edit", f"{name} on a table whose feature column was overwritten in place = {r_same}, "
                                      f"on a fresh copy with the same content = {r_new}", {**meta, "t_after_edit": list(dfe["t"])})
    # two groups that share one clone 47 000 times each (more than 2^31 coinciding cross pairs): the cross value is still a probability
    nbig = 47001
    dfb = pd.DataFrame({"g": ["a"] * (nbig + 3) + ["b"] * (nbig + 5), "s": ["CASSF"] * nbig + ["CA", "CB", "CC"] + ["CASSF"] * nbig + ["CD"] * 5})
    r_ = core.call_real(lambda: st.pc_grouped_cross(dfb, "g", "s"))
    want_ = Fraction(nbig * nbig, (nbig + 3) * (nbig + 5))
    chk.case(nontrivial_key="large-cross")
    if r_[0] != "ok" or not close(float(r_[1].loc["a", "b"]), float(want_), 1e-12) or not close(float(r_[1].loc["b", "a"]), float(want_), 1e-12):
        chk.violation("C13|pc_grouped_cross|large", f"pc_grouped_cross for two groups sharing a clone {nbig} times each = "
                      f"{str(r_[1].values.tolist() if r_[0] == 'ok' else r_)[:120]}, expected {float(want_)} (more than 2^31 coinciding pairs)", {"n": nbig})
    r2_ = core.call_real(lambda: float(st.pc_conditional(dfb, "g", "s")))
    want2_ = (Fraction(nbig * (nbig - 1), (nbig + 3) * (nbig + 2)) + Fraction(nbig * (nbig - 1) + 20, (nbig + 5) * (nbig + 4))) / 2
    if r2_[0] != "ok" or not close(r2_[1], float(want2_), 1e-12):
        chk.violation("C13|pc_conditional|large", f"pc_conditional for two large groups = {r2_}, expected {float(want2_)}", {"n": nbig})
    for bad in (0, -2.0):
        r = core.call_real(lambda: en.renyi2_entropy(pd.DataFrame({"s": ["a", "a"]}), "s", base=bad))
        if r != ("error", "ValueError"):
            chk.violation("C13|renyi2|bad-base", f"base={bad} not rejected with ValueError: {r}", {})


def replay(path):
    r = json.load(open(path))
    print(json.dumps(r, indent=1)[:3000])
    return 0
