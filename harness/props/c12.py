"""C12 — one-edit neighbourhood generators and the set utilities on them are exact."""
import json

import numpy as np

from harness import core, gen
from harness.gen import AA

TRUSTED = [
    "Lean 4.33.0 kernel; axioms propext, Classical.choice, Quot.sound only (audited per theorem)",
    "Levenshtein distance = recursive specification `lev`; Hamming = `ham`",
    "correspondence check (harness + compiled driver): generators compared as sorted multisets (duplicates visible, order not)",
]


def brute_lev1(x, alphabet, maxextra=1):
    """independent oracle: all strings over the alphabet at Levenshtein distance exactly 1 (python-Levenshtein)"""
    from Levenshtein import distance
    out = set()
    for L in (len(x) - 1, len(x), len(x) + 1):
        if L < 0:
            continue
        for y in gen.all_strings(alphabet, L, L):
            if distance(x, y) == 1:
                out.add(y)
    return sorted(out)


def run(chk):
    import pyrepseq.distance as ds
    from Levenshtein import distance as levd, hamming as hamd
    chk.trusted_base = TRUSTED
    chk.assumptions = ["alphabet given as a duplicate-free string"]
    chk.rule = ("exhaustive: every string up to a length bound over alphabets of 1-4 letters (homopolymers and runs included) plus "
                "runs up to length 12 over 20 letters; utilities on random reference sets; non-trivial = distinct (function, input) "
                "with a non-empty result")
    chk.build_and_audit()
    rng = chk.rng
    thorough = chk.tier == "thorough"
    alphabets = ["A", "AC", "ACD", "ACDE"]
    L = {1: 6, 2: 5, 3: 4, 4: 3} if not thorough else {1: 9, 2: 7, 3: 5, 4: 5}
    ops, reals, meta = [], [], []

    def add(op, real_thunk, canon, key):
        ops.append(op)
        reals.append(core.call_real(lambda: canon(real_thunk())))
        meta.append((op, canon, key))

    ms = lambda it: sorted(it)  # noqa  multiset (sorted list, duplicates kept)
    # --- generators, exhaustive
    for alpha in alphabets:
        for x in gen.all_strings(alpha, L[len(alpha)]):
            add({"op": "lev_neighbors", "x": x, "A": alpha}, lambda x=x, a=alpha: list(ds.levenshtein_neighbors(x, a)), ms, "gen")
            add({"op": "ham_neighbors", "x": x, "A": alpha}, lambda x=x, a=alpha: list(ds.hamming_neighbors(x, a)), ms, "gen")
    long_runs = ["A" * 12, "AC" * 6, "CAAAF", "CASSSSLF", "AACCAADD", "", "Y"]
    for x in long_runs + [gen.mutate(rng, "CASSLGQAYEQYF", AA, 2) for _ in range(6)]:
        add({"op": "lev_neighbors", "x": x, "A": AA}, lambda x=x: list(ds.levenshtein_neighbors(x)), ms, "gen")
        add({"op": "ham_neighbors", "x": x, "A": AA}, lambda x=x: list(ds.hamming_neighbors(x)), ms, "gen")
        if x:
            pos = sorted(rng.sample(range(len(x)), rng.randint(1, len(x))))
            add({"op": "ham_neighbors", "x": x, "A": AA, "pos": pos},
                lambda x=x, pos=pos: list(ds.hamming_neighbors(x, variable_positions=pos)), ms, "gen")
            # "iterable of positions": tuples, ranges, NumPy arrays and one-shot iterators (generator expression, iter, filter) alike
            for mk in (tuple, lambda p_: iter(p_), lambda p_: (i for i in p_), lambda p_: np.array(p_), lambda p_: filter(lambda i: True, p_)):
                add({"op": "ham_neighbors", "x": x, "A": AA, "pos": pos},
                    lambda x=x, pos=pos, mk=mk: list(ds.hamming_neighbors(x, variable_positions=mk(pos))), ms, "gen")
            lo = rng.randrange(len(x))
            add({"op": "ham_neighbors", "x": x, "A": AA, "pos": list(range(lo, len(x)))},
                lambda x=x, lo=lo: list(ds.hamming_neighbors(x, variable_positions=range(lo, len(x)))), ms, "gen")
    # --- next_nearest_neighbors
    import functools
    for alpha in ("AC", "ACD"):
        for x in gen.all_strings(alpha, 3):
            for d in (1, 2, 3):
                if d == 3 and len(x) > 2:
                    continue
                nb = functools.partial(ds.levenshtein_neighbors, alphabet=alpha)
                add({"op": "next_nearest", "x": x, "A": alpha, "d": d, "ham": False},
                    lambda x=x, nb=nb, d=d: ds.next_nearest_neighbors(x, nb, maxdistance=d), ms, "nn")
                nbh = functools.partial(ds.hamming_neighbors, alphabet=alpha)
                add({"op": "next_nearest", "x": x, "A": alpha, "d": d, "ham": True},
                    lambda x=x, nbh=nbh, d=d: ds.next_nearest_neighbors(x, nbh, maxdistance=d), ms, "nn")
    # --- utilities on reference sets
    for _ in range(60 if not thorough else 600):
        alpha = rng.choice(["AC", "ACD"])
        pool = gen.all_strings(alpha, 4)
        uniq = rng.sample(pool, rng.randint(1, 12))
        withdup = uniq + [rng.choice(uniq) for _ in range(rng.randint(0, 3))]
        nbl = functools.partial(ds.levenshtein_neighbors, alphabet=alpha)
        nbh = functools.partial(ds.hamming_neighbors, alphabet=alpha)
        for ham, nb in ((False, nbl), (True, nbh)):
            add({"op": "find_neighbor_pairs", "xs": withdup, "A": alpha, "ham": ham},
                lambda s=withdup, nb=nb: [list(p) for p in ds.find_neighbor_pairs(s, nb)], lambda v: sorted(map(list, v)), "pairs")
            add({"op": "find_neighbor_pairs_index", "xs": uniq, "A": alpha, "ham": ham},
                lambda s=uniq, nb=nb: [[int(a), int(b)] for a, b in ds.find_neighbor_pairs_index(s, nb)], lambda v: sorted(map(list, v)), "pairs")
            # (the docstring asks for unique sequences; with a repeated one every position still names ITS sequence, and the partner is
            #  given by its first position)
            shuffled = rng.sample(withdup, len(withdup))
            add({"op": "find_neighbor_pairs_index", "xs": shuffled, "A": alpha, "ham": ham},
                lambda s=shuffled, nb=nb: [[int(a), int(b)] for a, b in ds.find_neighbor_pairs_index(s, nb)], lambda v: sorted(map(list, v)), "pairs")
            add({"op": "neighbor_numbers", "xs": withdup, "A": alpha, "ham": ham},
                lambda s=withdup, nb=nb: [int(v) for v in ds.calculate_neighbor_numbers(s, neighborhood=nb)], list, "numbers")
            ref = rng.sample(pool, rng.randint(1, 10))
            add({"op": "neighbor_numbers", "xs": withdup, "ref": ref, "A": alpha, "ham": ham},
                lambda s=withdup, nb=nb, ref=ref: [int(v) for v in ds.calculate_neighbor_numbers(s, reference=set(ref), neighborhood=nb)],
                list, "numbers")
            for empty in (set(),):      # the property quantifies over reference SETS (a list raises TypeError in `set & list`)
                add({"op": "neighbor_numbers", "xs": withdup, "ref": [], "A": alpha, "ham": ham},
                    lambda s=withdup, nb=nb, empty=empty: [int(v) for v in ds.calculate_neighbor_numbers(s, reference=empty, neighborhood=nb)],
                    list, "numbers")
            x = rng.choice(pool)
            add({"op": "isdist1", "x": x, "ref": [], "A": alpha, "ham": ham},
                lambda x=x, nb=nb: bool(ds.isdist1(x, set(), nb)), bool, "isdist")
            add({"op": "isdist1", "x": x, "ref": ref, "A": alpha, "ham": ham},
                lambda x=x, nb=nb, ref=ref: bool(ds.isdist1(x, set(ref), nb)), bool, "isdist")
    # queries holding symbols that are not letters (stop codon '*', gap '-', '.', a digit, lower case): every other position is still
    # searched over the whole 20-letter alphabet
    for x_, refs_ in (("CAS*L", ["CASDF"]), ("CA-SL", ["CAGSF", "CADSL"]), ("C.SSL", ["CHSSF"]), ("*A", ["DC"]), ("CAS1L", ["CASBL", "CASAF"]),
                      ("cASL", ["CASF", "DASF"]), ("C*S*L", ["CDSDF", "CDSGL"])):
        for md in (2, 3, 4):
            add({"op": "nndist_hamming", "x": x_, "ref": refs_, "A": AA, "maxdist": md},
                lambda x=x_, ref=refs_, md=md: int(ds.nndist_hamming(x, set(ref), maxdist=md)), int, "nndist")
        add({"op": "isdist_ham", "x": x_, "ref": refs_, "A": AA, "n": 2}, lambda x=x_, ref=refs_: bool(ds._isdist2_hamming(x, set(ref))), bool, "isdist")
        add({"op": "isdist_ham", "x": x_, "ref": refs_, "A": AA, "n": 3}, lambda x=x_, ref=refs_: bool(ds._isdist3_hamming(x, set(ref))), bool, "isdist")
    # --- nndist_hamming and the nested enumerations (fixed 20-letter alphabet in the code)
    for _ in range(40 if not thorough else 300):
        Lx = rng.randint(1, 5)
        letters = rng.choice(["AC", "ACD", AA])
        x = "".join(rng.choice(letters) for _ in range(Lx))
        ref = []
        for _ in range(rng.randint(1, 8)):
            y = list(x)
            for i in rng.sample(range(Lx), rng.randint(0, min(Lx, 4))):
                y[i] = rng.choice(letters)
            ref.append("".join(y))
        if rng.random() < 0.3:
            ref.append(x[:-1])          # a different length never matches
        for md in (1, 2, 3, 4):
            add({"op": "nndist_hamming", "x": x, "ref": ref, "A": AA, "maxdist": md},
                lambda x=x, ref=ref, md=md: int(ds.nndist_hamming(x, set(ref), maxdist=md)), int, "nndist")
        add({"op": "isdist_ham", "x": x, "ref": ref, "A": AA, "n": 2}, lambda x=x, ref=ref: bool(ds._isdist2_hamming(x, set(ref))), bool, "isdist")
        add({"op": "isdist_ham", "x": x, "ref": ref, "A": AA, "n": 3}, lambda x=x, ref=ref: bool(ds._isdist3_hamming(x, set(ref))), bool, "isdist")
    for _ in range(30 if not thorough else 300):
        x = "".join(rng.choice("ACD") for _ in range(rng.randint(2, 6)))
        i = rng.randrange(len(x) + 1)
        indel = [x[:i] + rng.choice("ACD") + x[i:], x[:max(i - 1, 0)] + x[i:]]
        ref = [rng.choice(indel)] + ([x[:-1] + ("A" if x[-1] != "A" else "C")] if rng.random() < 0.3 else [])
        for md in (1, 2, 4):
            add({"op": "nndist_hamming", "x": x, "ref": ref, "A": AA, "maxdist": md},
                lambda x=x, ref=ref, md=md: int(ds.nndist_hamming(x, set(ref), maxdist=md)), int, "nndist")
        add({"op": "isdist1", "x": x, "ref": ref, "A": AA, "ham": True},
            lambda x=x, ref=ref: bool(ds.isdist1(x, set(ref), ds.hamming_neighbors)), bool, "isdist")
        add({"op": "isdist1", "x": x, "ref": ref, "A": AA, "ham": False},
            lambda x=x, ref=ref: bool(ds.isdist1(x, set(ref))), bool, "isdist")
    # every reference further than 3 mismatches away (or none of equal length): the answer is maxdist itself
    for _ in range(10 if not thorough else 60):
        Lx = rng.randint(4, 6)
        x = "".join(rng.choice("ACD") for _ in range(Lx))
        far = ["".join(rng.choice([c for c in "ACDE" if c != ch]) for ch in x) for _ in range(rng.randint(0, 3))]
        if far and rng.random() < 0.5:
            k = rng.randrange(Lx)
            far.append(far[0][:k] + x[k] + far[0][k + 1:])      # exactly Lx - 1 mismatches
        if rng.random() < 0.3:
            far.append(x + "A")
        for md in (1, 3, 4):
            add({"op": "nndist_hamming", "x": x, "ref": far, "A": AA, "maxdist": md},
                lambda x=x, ref=far, md=md: int(ds.nndist_hamming(x, set(ref), maxdist=md)), int, "nndist")
    ops.append({"op": "nndist_hamming", "x": "AC", "ref": ["AC"], "A": AA, "maxdist": 5})
    reals.append(core.call_real(lambda: ds.nndist_hamming("AC", {"AC"}, maxdist=5)))
    meta.append((ops[-1], lambda v: v, "nndist"))

    # histories on ONE reference object: queried, edited in place without changing its size, queried again - and a leave-one-out
    # loop that builds a new same-size reference per step: every answer is that of the reference as it is at that moment
    def hamd_(a_, b_):
        return sum(x != y for x, y in zip(a_, b_)) if len(a_) == len(b_) else None
    for _ in range(12 if not thorough else 100):
        L_ = rng.randint(3, 5)
        mk_ = lambda: "".join(rng.choice("ACD") for _ in range(L_))  # noqa: E731
        refset = {mk_() for _ in range(rng.randint(2, 6))}
        x = mk_()
        md = rng.choice([2, 3, 4])
        steps, okh = [], True
        for step in range(4):
            r_ = core.call_real(lambda: int(ds.nndist_hamming(x, refset, maxdist=md)))
            ds_ = [d for d in (hamd_(x, y) for y in refset) if d is not None]
            want = min([md] + ds_)
            steps.append((sorted(refset), r_, want))
            r1_ = core.call_real(lambda: bool(ds.isdist1(x, refset, ds.hamming_neighbors)))
            if r_ != ("ok", want) or r1_ != ("ok", any(d == 1 for d in ds_)):
                okh = False
                break
            # same object, same size, different content
            if refset:
                old_ = rng.choice(sorted(refset))
                new_ = mk_()
                if new_ not in refset:
                    refset.remove(old_)
                    refset.add(new_)
        chk.case(nontrivial_key=("nndist-history", x, str(steps)[:200]))
        chk.count("op:nndist_hamming-history")
        if not okh:
            chk.violation("C12|nndist_hamming|history-same-reference-object", f"nndist_hamming / isdist1 on a reference set edited in place (same object, "
                          f"same size) gave {steps[-1][1]} where min(true nearest Hamming distance, maxdist) = {steps[-1][2]}",
                          {"x": x, "maxdist": md, "steps": [[s_[0], str(s_[1]), s_[2]] for s_ in steps]})
        # leave-one-out over a list: a fresh same-size set per step (object addresses get reused)
        pool_ = [mk_() for _ in range(6)]
        for i_ in range(len(pool_)):
            loo = set(pool_[:i_] + pool_[i_ + 1:])
            r_ = core.call_real(lambda: int(ds.nndist_hamming(pool_[i_], loo, maxdist=4)))
            want = min([4] + [d for d in (hamd_(pool_[i_], y) for y in loo) if d is not None])
            if r_ != ("ok", want):
                chk.violation("C12|nndist_hamming|leave-one-out", f"nndist_hamming({pool_[i_]!r}, pool without it) = {r_}, expected {want} (leave-one-out loop, step {i_})",
                              {"pool": pool_, "step": i_})
                break
            del loo
    # dense references: a sequence with more than 255 (and more than 65535 would need length > 1600) distance-1 partners present
    from Levenshtein import distance as _levd
    for ham in (False, True):
        L = 14 if ham else 8
        x = "".join(rng.choice(AA) for _ in range(L))
        nbrs = {x[:i] + c + x[i + 1:] for i in range(L) for c in AA if c != x[i]}
        if not ham:
            nbrs |= {x[:i] + c + x[i:] for i in range(L + 1) for c in AA} | {x[:i] + x[i + 1:] for i in range(L)}
        y = sorted(nbrs)[rng.randrange(len(nbrs))]
        ref = set(nbrs) | {"".join(rng.choice(AA) for _ in range(L)) for _ in range(20)} | {x}
        seqs_d = [x, y, x]
        nbf = ds.hamming_neighbors if ham else ds.levenshtein_neighbors
        real = core.call_real(lambda: [int(v) for v in ds.calculate_neighbor_numbers(seqs_d, reference=ref, neighborhood=nbf)])
        d1 = (lambda r, s_: len(r) == len(s_) and sum(a != b for a, b in zip(r, s_)) == 1) if ham else (lambda r, s_: _levd(r, s_) == 1)
        want = [sum(1 for r in ref if d1(r, s_)) for s_ in seqs_d]
        chk.case(nontrivial_key=("dense", ham))
        chk.count("op:neighbor_numbers-dense")
        if real != ("ok", want):
            chk.violation(f"C12|calculate_neighbor_numbers|dense-{'ham' if ham else 'lev'}", f"calculate_neighbor_numbers = {str(real)[:80]} but the numbers of "
                          f"distance-1 partners in the reference are {want} (counts above 255)", {"seqs": seqs_d, "reference_size": len(ref), "want": want, "real": str(real)[:200]})
    ans = core.run_driver_parallel(ops)
    chk.exhaustive = True
    for (op, canon, key), real, a in zip(meta, reals, ans):
        if a[0] == "ok" and a[1] is None and op["op"] == "nndist_hamming":
            model = ("error", "NotImplementedError")
        elif a[0] == "ok":
            try:
                model = ("ok", canon(a[1]))
            except Exception:  # noqa
                model = ("ok", a[1])
        else:
            model = a
        nontriv = real[0] == "ok" and bool(real[1])
        chk.case(sample={"op": op, "real": str(real)[:200]} if chk.evaluations % 400 == 0 else None,
                 nontrivial_key=json.dumps(op, sort_keys=True) if nontriv else None)
        chk.count("op:" + op["op"])
        if real == model:
            continue
        # triage against the independent oracle
        sig = f"C12|{op['op']}|differs"
        verdict = None
        if op["op"] == "lev_neighbors" and len(op["A"]) <= 4 and len(op["x"]) <= 6:
            want = brute_lev1(op["x"], op["A"])
            verdict = real == ("ok", want)
        elif op["op"] == "ham_neighbors" and "pos" not in op:
            x, A = op["x"], op["A"]
            want = sorted(x[:i] + a_ + x[i + 1:] for i in range(len(x)) for a_ in A if a_ != x[i])
            verdict = real == ("ok", want)
        elif op["op"] == "nndist_hamming" and real[0] == "ok":
            x, ref, md = op["x"], op["ref"], op["maxdist"]
            ds_ = [hamd(x, r) for r in ref if len(r) == len(x)]
            want = min([md] + ds_)
            verdict = real[1] == want
        if verdict is True:
            chk.model_error(f"{op['op']}: model {str(model)[:150]} differs from real {str(real)[:150]} which satisfies the oracle; op={json.dumps(op)[:300]}")
        elif verdict is False:
            chk.violation(sig, f"{op['op']}: real output violates the distance oracle: {str(real)[:200]} on {json.dumps(op)[:300]}",
                          {"op": op, "real": str(real)[:3000], "model": str(model)[:3000]})
        else:
            # model = spec is proved (C12_* theorems): a disagreement is a failure of the real code
            chk.violation(sig, f"{op['op']}: implementation differs from the proved model: real={str(real)[:200]} model={str(model)[:200]}",
                          {"op": op, "real": str(real)[:3000], "model": str(model)[:3000]})


def replay(path):
    r = json.load(open(path))
    print(json.dumps(r, indent=1)[:3000])
    op = r.get("op")
    if not op:
        return 0
    import pyrepseq.distance as ds
    if op["op"] == "lev_neighbors":
        real = sorted(ds.levenshtein_neighbors(op["x"], op["A"]))
        model = sorted(core.run_driver([op])[0][1])
        print("real :", real)
        print("model:", model)
        print("verdict:", "holds" if real == model else "VIOLATES")
        return 0 if real == model else 1
    return 0
