"""C14 — distance-filtered search keeps exactly the pairs inside both radii; TCRdist search; V tables."""
import csv
import json
import os
from fractions import Fraction

import numpy as np
import pandas as pd

from harness import core, gen, search
from harness.gen import AA

TRUSTED = [
    "Lean 4.33.0 kernel; axioms propext, Classical.choice, Quot.sound only (audited per theorem)",
    "custom distance callables enter the model as exact value tables computed by the harness from the same callable",
    "pwseqdist is absent from the sandbox: nearest_neighbor_tcrdist runs against the vendored stand-in harness/standins/pwseqdist "
    "(documented gap-penalised mismatch count, NOT the real TCRdist matrix); the V-gene tables are the real bundled CSV files",
    "Generated/Vdist*.lean are regenerated from the CSV files on every run and re-checked by the kernel (decide +kernel)",
    "SciPy KDTree ball query modelled by the integer predicate (see C04)",
]


def load_vtable(chain):
    path = os.path.join(core.REPO, "pyrepseq", "data", f"vdists_{chain}.csv")
    rows = list(csv.reader(open(path)))
    cols = rows[0][1:]
    idx = [r[0] for r in rows[1:]]
    M = [[Fraction(v) for v in r[1:]] for r in rows[1:]]
    return idx, cols, M


def csv_failing_entry(chain):
    """directed search used when the generated table theorem no longer checks: a concrete bad entry"""
    idx, cols, M = load_vtable(chain)
    if idx != cols:
        return {"chain": chain, "problem": "row labels differ from column labels"}
    for i in range(len(M)):
        if len(M[i]) != len(M):
            return {"chain": chain, "problem": f"row {idx[i]} has {len(M[i])} entries"}
        if M[i][i] != 0:
            return {"chain": chain, "problem": "non-zero diagonal", "allele": idx[i], "value": str(M[i][i])}
        for j in range(i):
            if M[i][j] != M[j][i]:
                return {"chain": chain, "problem": "asymmetric", "a": idx[i], "b": idx[j], "ab": str(M[i][j]), "ba": str(M[j][i])}
    return None


def run(chk):
    nn = search.nn()
    import pwseqdist  # the stand-in (injected by harness.main)
    assert "standins" in pwseqdist.__file__
    from Levenshtein import distance as levd
    chk.trusted_base = TRUSTED
    chk.assumptions = ["custom distances are symmetric with d(x, x) = 0 (the property's quantifier)", "ctrim >= 1"]
    chk.rule = ("engines x custom distances {lev, 10*lev, lev/2, length difference, Hamming+length penalty, length-sensitive mix} x "
                "max_custom_distance {0, 1/2, 1, 2, 10, inf} x k 1..3 on exhaustive small-alphabet pools and repertoires; TCR tables "
                "over alleles of the bundled tables x chain x edit_on_trimmed x max_edits x max_tcrdist; non-trivial = distinct case "
                "with >= 1 reported pair")
    ok_build = chk.build_and_audit()
    rng = chk.rng
    thorough = chk.tier == "thorough"
    # directed search on the data tables (always run: it is also the failing-input search for the generated theorems)
    for chain in ("alpha", "beta"):
        bad = csv_failing_entry(chain)
        chk.case(nontrivial_key=("vtable", chain))
        if bad:
            chk.violation(f"C14|vdists_{chain}|{bad['problem'].split(' ')[0]}", f"bundled V-gene table is not symmetric with zero diagonal: {bad}", bad)

    dists = {
        "lev": lambda a, b: levd(a, b),
        "10lev": lambda a, b: 10 * levd(a, b),
        "lev/2": lambda a, b: levd(a, b) / 2,
        "lendiff": lambda a, b: abs(len(a) - len(b)),
        "ham+len": lambda a, b: sum(x != y for x, y in zip(a, b)) + 3 * abs(len(a) - len(b)),
        "mix": lambda a, b: abs(len(a) - len(b)) + 0.25 * levd(a, b),
        # values that land a shade ABOVE a round radius: 0.1 + 0.1 + 0.1 = 0.30000000000000004 > 0.3, 1.000001 > 1
        "tenths": lambda a, b: sum(0.1 for _ in range(levd(a, b))),
        "shade-over": lambda a, b: levd(a, b) * 1.000001,
    }
    mcds = [0, 0.5, 1, 2, 10, None]
    pool = gen.all_strings("ACD", 3)
    b = search.Batch(chk, "corr:custom engines")

    def add(label, xs, k, dname, mcd, model=True, qs=None):
        fn = dists[dname]
        in_alphabet = all(c in AA for x in xs for c in x)
        kw = search.py_kwargs("custom", fn, mcd)
        meta = {"xs": xs, "k": k, "dist": dname, "mcd": mcd, "qs": qs}
        if qs is None:
            fields = search.score_fields("custom", k, xs, fn, mcd)
            sop = {"op": "brute_self", "xs": xs, **fields}
            small = model and len(xs) <= 30 and max(len(x) for x in xs) <= 6
            b.add(f"symdel-custom|{label}", lambda: nn.symdel(xs, max_edits=k, **kw),
                  {"op": "symdel_self", "xs": xs, **fields} if small else None, sop, meta)
            b.add(f"nearest_neighbor-custom|{label}", lambda: nn.nearest_neighbor(xs, max_edits=k, **kw), None, sop, meta)
            if in_alphabet and (k == 1 or (k == 2 and max(len(x) for x in xs) <= 3 and len(xs) <= 8)):
                b.add(f"hash_based-custom|{label}", lambda: nn.hash_based(xs, max_edits=k, **kw),
                      {"op": "lookupdb", "ref": xs, "qs": xs, "pdist": True, "A": AA, **fields} if (small and k == 1) else None, sop, meta)
            if in_alphabet:
                b.add(f"kdtree-custom|{label}", lambda: nn.kdtree(xs, max_edits=k, **kw),
                      {"op": "kdtree", "xs": xs, "c": 1, "A": AA, **fields} if small else None, sop, meta)
        else:
            fields = search.score_fields("custom", k, xs + qs, fn, mcd)
            sop = {"op": "brute_cross", "ref": xs, "qs": qs, **fields}
            b.add(f"symdel2-custom|{label}", lambda: nn.symdel(xs, max_edits=k, seqs2=qs, **kw),
                  {"op": "symdel_lookup", "ref": xs, "qs": qs, **fields} if len(xs) <= 15 else None, sop, meta)
            b.add(f"SymdelDB.lookup-custom|{label}", lambda: nn.SymdelDB(xs, k).lookup(qs, **kw), None, sop, meta)
            b.add(f"nearest_neighbor2-custom|{label}", lambda: nn.nearest_neighbor(xs, max_edits=k, seqs2=qs, **kw), None, sop, meta)

    corner = [["XA", "AY"], ["AC", "A", "ACD", "CD"], ["CAAA", "CDDD", "CADA", "CAAK"], ["A", "AA", "AAA", "AAAA"]]
    for xs in corner:
        for dname in dists:
            for mcd in (None, 5, 1):
                add("corner", xs, 1, dname, mcd)
                add("corner", xs, 2, dname, mcd)
    # every run: pairs whose custom distance lies a shade above the radius ("at most max_custom_distance" is an exact comparison)
    for xs in corner + [["CAAA", "CDDA", "CDDD", "CADA"], ["ACD", "CDA", "DAC", "AAA", "ACA"]]:
        add("near-radius", xs, 3, "tenths", 0.3)
        add("near-radius", xs, 2, "tenths", 0.2)
        add("near-radius", xs, 2, "shade-over", 1)
        add("near-radius", xs, 2, "shade-over", 2)
        add("near-radius", xs, 2, "shade-over", 1, qs=["CADD", "AC", "ACD"])
        # queries LONGER than every reference sequence (and shorter ones): each query is searched whole
        add("long-queries", [x[:3] for x in xs], 2, "mix", 2, qs=["CADDAC", "CAAAKD", "ACDACD", "A"])
        add("long-queries", [x[:3] for x in xs], 1, "lev/2", None, qs=[xs[0][:3] + "D", xs[-1][:3] + "AC"])
    for _ in range(60 if not thorough else 600):
        xs = gen.sub_collection(rng, pool, rng.randint(2, 12))
        add("E(ACD)", xs, rng.randint(1, 3), rng.choice(list(dists)), rng.choice(mcds))
        if rng.random() < 0.4:
            add("E(ACD)", xs, rng.randint(1, 2), rng.choice(list(dists)), rng.choice(mcds), qs=gen.sub_collection(rng, pool, rng.randint(1, 6)))
    for _ in range(8 if not thorough else 60):
        xs = gen.repertoire(rng, rng.choice([10, 40]), allow_empty=False)
        add("R", xs, rng.choice([1, 2]), rng.choice(list(dists)), rng.choice(mcds), model=False)
    b.run()

    # several worker processes with a real-valued custom distance (values must come back from the workers unchanged; list lengths
    # that leave a remainder for the worker count)
    from Levenshtein import distance as _levd0
    for _ in range(4 if not thorough else 20):
        xs_p = gen.repertoire(rng, rng.choice([11, 23, 50]), minlen=5, maxlen=8, allow_empty=False)
        ncpu = rng.choice([2, 3, 4])
        halfd = lambda a_, b_: _levd0(a_, b_) / 2 + 0.25 * abs(len(a_) - len(b_))  # noqa: E731
        mcd = rng.choice([0.5, 1.0, 1.25])
        sop = {"op": "brute_self", "xs": xs_p, **search.score_fields("custom", 2, xs_p, halfd, mcd)}
        b2 = search.Batch(chk, "corr:kdtree-custom-parallel")
        b2.add("kdtree-custom-parallel|R", lambda xs_p=xs_p, ncpu=ncpu, mcd=mcd: nn.kdtree(xs_p, max_edits=2, custom_distance=halfd, max_custom_distance=mcd, n_cpu=ncpu),
               None, sop, {"xs": xs_p, "k": 2, "n_cpu": ncpu, "max_custom_distance": mcd, "distance": "lev/2 + |len diff|/4"})
        b2.run()
    # a few hundred sequences in dense one-substitution families (many pairs EXACTLY on the kd-tree radius, spread over many tree
    # nodes) with a real-valued custom distance, every engine against the brute-force definition
    fam_roots = [gen.repertoire(rng, 1, minlen=6, maxlen=9, allow_empty=False)[0] for _ in range(14)]
    fxs = []
    for r_ in fam_roots:
        fxs.append(r_)
        for _ in range(rng.randint(12, 22)):
            fxs.append(gen.mutate(rng, r_, AA, rng.choice([1, 1, 1, 2])) or r_)
    rng.shuffle(fxs)
    halfm = lambda a_, b_: levd(a_, b_) / 2 + 0.25 * abs(len(a_) - len(b_))  # noqa: E731
    for kf, mcdf in ((1, 0.75), (2, 1.0)):
        wantf = sorted((i, j, halfm(fxs[i], fxs[j])) for i in range(len(fxs)) for j in range(len(fxs))
                       if i != j and levd(fxs[i], fxs[j]) <= kf and halfm(fxs[i], fxs[j]) <= mcdf)
        for name, fn in (("kdtree", lambda: nn.kdtree(fxs, max_edits=kf, custom_distance=halfm, max_custom_distance=mcdf)),
                         ("kdtree-compressed", lambda: nn.kdtree(fxs, max_edits=kf, custom_distance=halfm, max_custom_distance=mcdf, compression=3)),
                         ("symdel", lambda: nn.symdel(fxs, max_edits=kf, custom_distance=halfm, max_custom_distance=mcdf))) + \
                ((("hash_based", lambda: nn.hash_based(fxs, max_edits=kf, custom_distance=halfm, max_custom_distance=mcdf)),) if kf == 1 else ()):
            rr = core.call_real(lambda: sorted((int(a_), int(b_), float(d_)) for a_, b_, d_ in fn()))
            chk.case(nontrivial_key=("families-custom", name, kf))
            chk.count("families-custom")
            if rr[0] != "ok" or rr[1] != wantf:
                got_ = set(rr[1]) if rr[0] == "ok" else set()
                miss_, extra_ = sorted(set(wantf) - got_), sorted(got_ - set(wantf))
                chk.violation(f"C14|{name}-custom|families|{'raises' if rr[0] != 'ok' else ('missing' if miss_ else 'spurious')}",
                              f"{name} with a custom distance on {len(fxs)} sequences in one-substitution families, max_edits={kf}, max_custom_distance={mcdf}: "
                              f"{len(miss_)} pairs inside both radii missing, {len(extra_)} reported pairs outside; {str(rr)[:80] if rr[0] != 'ok' else ''}",
                              {"xs": fxs, "k": kf, "mcd": mcdf, "dist": "lev/2 + |len diff|/4", "missing": miss_[:10], "spurious": extra_[:10]})
    # more than 46341 sequences with a callable custom distance (position products beyond 2^31): planted pairs at late positions
    from Levenshtein import distance as _levd
    nbig = 47011 if not thorough else 60001
    bxs, bpairs = gen.planted(rng, nbig)
    half = lambda a_, b_: _levd(a_, b_) / 2 + abs(len(a_) - len(b_))  # noqa: E731
    for name, fn in ((("symdel", lambda: nn.symdel(bxs, max_edits=1, custom_distance=half, max_custom_distance=0.5)),
                      ("nearest_neighbor", lambda: nn.nearest_neighbor(bxs, max_edits=1, custom_distance=half, max_custom_distance=0.5)))
                     if not chk.skip_large("the 47 011-sequence custom-distance collection",
                                           probe=lambda: nn.symdel(bxs[:3000], max_edits=1, custom_distance=half, max_custom_distance=0.5)) else ()):
        rr = core.call_real(lambda: [(int(a_), int(b_), float(d_)) for a_, b_, d_ in fn()])
        chk.case(nontrivial_key=("large-custom", name))
        chk.count("large-collection")
        if rr[0] != "ok":
            chk.violation(f"C14|{name}-custom|large|raises-{rr[1]}", f"{name}(custom_distance) raised {rr[1]} on {nbig} sequences", {"n": nbig})
            continue
        want = {(i, j, 0.5) for i, j, _d in bpairs} | {(j, i, 0.5) for i, j, _d in bpairs}
        bad = [t for t in rr[1] if not (0 <= t[0] < nbig and 0 <= t[1] < nbig and t[0] != t[1] and _levd(bxs[t[0]], bxs[t[1]]) <= 1
                                      and half(bxs[t[0]], bxs[t[1]]) == t[2] <= 0.5)]
        missing = sorted(want - set(rr[1]))
        if bad or missing or len(set(rr[1])) != len(rr[1]):
            ex = (bad or missing or [None])[0]
            chk.violation(f"C14|{name}-custom|large|{'spurious' if bad else ('missing' if missing else 'repeated')}",
                          f"{name} with a custom distance on {nbig} sequences: {len(bad)} reported triplets are not pairs inside both radii with their custom "
                          f"distance, {len(missing)} planted pairs are missing; e.g. {ex}", {"n": nbig, "example": ex, "planted": bpairs[:6]})

    # the reported value is the custom distance in every output format (a real-valued distance must not be truncated)
    for xs in corner[1:] + [gen.sub_collection(rng, pool, 8) for _ in range(4)]:
        for dname in ("lev/2", "mix"):
            fn = dists[dname]
            for e in (nn.symdel, nn.hash_based, nn.kdtree):
                trip = core.call_real(lambda: e(xs, max_edits=1, custom_distance=fn, max_custom_distance=2.0))
                if trip[0] != "ok":
                    continue
                want = [[0.0] * len(xs) for _ in xs]
                for q, r, d in trip[1]:
                    want[int(r)][int(q)] = float(d)
                for ot in ("ndarray", "coo_matrix"):
                    real = core.call_real(lambda: e(xs, max_edits=1, custom_distance=fn, max_custom_distance=2.0, output_type=ot))
                    got = None
                    if real[0] == "ok":
                        got = np.asarray(real[1].toarray() if ot == "coo_matrix" else real[1]).astype(float).tolist()
                    chk.case(nontrivial_key=("custom-format", e.__name__, ot, dname, str(xs)) if trip[1] else None)
                    if got != want:
                        chk.violation(f"C14|{e.__name__}-custom|{ot}|value-not-custom-distance",
                                      f"{e.__name__}(output_type={ot}) does not report the custom distance {dname} of each pair",
                                      {"xs": xs, "dist": dname, "real": str(got)[:1200], "want": str(want)[:1200]})

    # ---- nearest_neighbor_tcrdist against the stand-in
    idxA, _, MA = load_vtable("alpha")
    idxB, _, MB = load_vtable("beta")
    posA = {a: i for i, a in enumerate(idxA)}
    posB = {a: i for i, a in enumerate(idxB)}
    ops, metas, reals = [], [], []
    n_tab = 40 if not thorough else 300
    for t in range(n_tab):
        n = rng.choice([1, 2, 3, 6, 12, 25])
        roots = [gen.repertoire(rng, 1, minlen=9, maxlen=14, allow_empty=False)[0] for _ in range(3)]
        rows = []
        for _ in range(n):
            cb = gen.mutate(rng, rng.choice(roots), AA, rng.randint(0, 2))
            ca = gen.mutate(rng, rng.choice(roots), AA, rng.randint(0, 2))
            if rng.random() < 0.05:
                cb = cb[:rng.randint(3, 5)]
            rows.append((ca, rng.choice(idxA[:12] if rng.random() < 0.7 else idxA), cb, rng.choice(idxB[:12] if rng.random() < 0.7 else idxB)))
        if rng.random() < 0.3 and n > 1:
            rows.append(rows[0])                      # an exact duplicate clone
        if t % 4 == 1:
            # same alpha chain, beta chain one substitution away (the whole distance then comes from ONE chain), and the mirror image
            ca0, va0, cb0, vb0 = rows[0]
            if len(cb0) > 7 and len(ca0) > 7:
                rows.append((ca0, va0, cb0[:5] + ("A" if cb0[5] != "A" else "G") + cb0[6:], vb0))
                rows.append((ca0[:5] + ("A" if ca0[5] != "A" else "G") + ca0[6:], va0, cb0, vb0))
        df = pd.DataFrame(rows, columns=["CDR3A", "TRAV", "CDR3B", "TRBV"])
        if rng.random() < 0.3:
            df.index = range(10, 10 + len(df))        # non-default index labels
        chain = rng.choice(["alpha", "beta", "both"]) if t % 4 != 1 else "both"
        trimmed = rng.choice([True, False])
        k = rng.choice([1, 2])
        max_t = rng.choice([0, 12, 24, 50, 200])
        # custom TCRdist parameters in some calls, the defaults in the others (parameters of one call must not leak into the next)
        tk = rng.choice([{}, {}, {"ntrim": 2, "ctrim": 1, "dist_weight": 1, "gap_penalty": 4}, {"dist_weight": 5}])
        par = dict(ntrim=3, ctrim=2, dist_weight=3, gap_penalty=12)
        par.update(tk)
        letter = "A" if chain == "alpha" else "B"
        search_col = [r[0] if letter == "A" else r[2] for r in df.itertuples(index=False)]
        edit_seqs = [s[par["ntrim"]:len(s) - par["ctrim"]] for s in search_col] if trimmed else list(search_col)
        nrow = len(df)
        vd = [[Fraction(0)] * nrow for _ in range(nrow)]
        cd = [[Fraction(0)] * nrow for _ in range(nrow)]
        chains = ["alpha", "beta"] if chain == "both" else [chain]
        for ch in chains:
            col3 = list(df["CDR3A" if ch == "alpha" else "CDR3B"])
            colv = list(df["TRAV" if ch == "alpha" else "TRBV"])
            pos, M = (posA, MA) if ch == "alpha" else (posB, MB)
            for i in range(nrow):
                for j in range(nrow):
                    vd[i][j] += M[pos[colv[i]]][pos[colv[j]]]
                    cd[i][j] += pwseqdist.cdr3_distance(col3[i], col3[j], **par)
        if t % 4 in (1, 2):
            # the radius sits EXACTLY on the TCRdist of one of the candidate pairs ("at most max_tcrdist" includes equality)
            on_radius = sorted({vd[i][j] + cd[i][j] for i in range(nrow) for j in range(i + 1, nrow)
                                if levd(edit_seqs[i], edit_seqs[j]) <= k and vd[i][j] + cd[i][j] == int(vd[i][j] + cd[i][j])})
            if on_radius:
                max_t = int(on_radius[(t // 4) % len(on_radius)])
        ops.append({"op": "nn_tcrdist" if nrow <= 7 else "nn_tcrdist_spec", "k": k, "edit_seqs": edit_seqs, "vd": [[core.fstr(x) for x in r] for r in vd],
                    "cd": [[core.fstr(x) for x in r] for r in cd], "max_tcrdist": core.fstr(max_t)})
        meta = {"rows": rows, "chain": chain, "edit_on_trimmed": trimmed, "max_edits": k, "max_tcrdist": max_t,
                "index": [int(x) for x in df.index], "tcrdist_kwargs": tk}
        tk_before = dict(tk)
        metas.append(meta)
        raw_ = core.call_real(lambda: np.asarray(nn.nearest_neighbor_tcrdist(df, chain=chain, max_edits=k, edit_on_trimmed=trimmed, max_tcrdist=max_t, tcrdist_kwargs=tk)))
        if raw_[0] == "ok" and (raw_[1].ndim != 2 or raw_[1].shape[1] != 3):
            chk.violation("C14|nearest_neighbor_tcrdist|shape", f"nearest_neighbor_tcrdist returns an array of shape {raw_[1].shape}: the result is a list of "
                          "(position, position, distance) triples - three columns, also when it is empty", {"rows": rows, "chain": chain, "max_tcrdist": max_t})
        reals.append(core.call_real(lambda: core.canon_trips([tuple(r) for r in raw_[1].tolist()])) if raw_[0] == "ok" else raw_)
        if tk != tk_before:
            chk.violation("C14|nearest_neighbor_tcrdist|mutates-kwargs", "nearest_neighbor_tcrdist modified the caller's tcrdist_kwargs", meta)
    ans = core.run_driver_parallel(ops, nproc=8)
    for meta, real, a in zip(metas, reals, ans):
        model = ("ok", core.canon_model_trips(a[1])) if a[0] == "ok" else a
        chk.case(sample=meta if len(chk.samples) < 6 else None,
                 nontrivial_key=("tcrdist", json.dumps(meta, sort_keys=True)) if model[0] == "ok" and model[1] else None)
        chk.count(f"tcrdist:chain={meta['chain']}")
        chk.count(f"tcrdist:{'hits' if model[0] == 'ok' and model[1] else 'empty'}")
        if real != model:
            empty = model[0] == "ok" and not model[1]
            sig = f"C14|nearest_neighbor_tcrdist|{'empty-result-' if empty else ''}" + (f"raises-{real[1]}" if real[0] == "error" else "differs")
            chk.violation(sig, f"nearest_neighbor_tcrdist differs from the proved model (real={str(real)[:150]} model={str(model)[:150]})",
                          {**meta, "real": str(real)[:3000], "model": str(model)[:3000]})
    # trim slice correspondence
    tops = [{"op": "trim_slice", "s": s, "ntrim": 3, "ctrim": 2} for s in ["", "C", "CAS", "CASS", "CASSF", "CASSLGF", "CASSLGQAYEQYF"]]
    for o, a in zip(tops, core.run_driver(tops)):
        want = pd.Series([o["s"]]).str[3:-2].iloc[0]
        if a != ("ok", want):
            chk.broken_obligations.append(f"corr:str[ntrim:-ctrim]~trimSlice differs on {o}: pandas={want!r} model={a}")


def replay(path):
    r = json.load(open(path))
    print(json.dumps(r, indent=1)[:4000])
    meta = r.get("meta")
    if meta and meta.get("dist") and meta.get("qs") is None:
        nn = search.nn()
        from Levenshtein import distance as levd
        dists = {"lev": lambda a, b: levd(a, b), "10lev": lambda a, b: 10 * levd(a, b), "lev/2": lambda a, b: levd(a, b) / 2,
                 "lendiff": lambda a, b: abs(len(a) - len(b)),
                 "ham+len": lambda a, b: sum(x != y for x, y in zip(a, b)) + 3 * abs(len(a) - len(b)),
                 "mix": lambda a, b: abs(len(a) - len(b)) + 0.25 * levd(a, b),
                 "tenths": lambda a, b: sum(0.1 for _ in range(levd(a, b))), "shade-over": lambda a, b: levd(a, b) * 1.000001}
        fn = dists[meta["dist"]]
        xs, k, mcd = meta["xs"], meta["k"], meta["mcd"]
        fields = search.score_fields("custom", k, xs, fn, mcd)
        sp = core.canon_model_trips(core.run_driver([{"op": "brute_self", "xs": xs, **fields}])[0][1])
        real = core.call_real(lambda: core.canon_trips(nn.symdel(xs, max_edits=k, **search.py_kwargs("custom", fn, mcd))))
        print("spec  :", sp)
        print("symdel:", real)
        ok = real == ("ok", sp)
        print("verdict:", "holds" if ok else "VIOLATES")
        return 0 if ok else 1
    return 0
