"""C03 — two-collection search and database lookups are exact (symdel seqs2, SymdelDB, LookupDB)."""
import copy
import json

from harness import core, gen, search
from harness.gen import AA

TRUSTED = [
    "Lean 4.33.0 kernel; axioms propext, Classical.choice, Quot.sound only (audited per theorem)",
    "rapidfuzz Levenshtein.distance modelled by the recursive specification `lev`",
    "LookupDB theorems hold for reference strings over the alphabet the generators enumerate (the 20 amino acids); queries arbitrary",
    "correspondence check (harness + compiled driver): differential, bounded by its generators",
]


def run(chk):
    nn = search.nn()
    chk.trusted_base = TRUSTED
    chk.assumptions = ["Python run without -O", "LookupDB: reference over ACDEFGHIKLMNPQRSTVWY"]
    chk.rule = ("pairs of collections (different sizes, overlap, duplicates on either side, identical query/reference, hits at "
                "numerically equal positions) from exhaustive small-alphabet pools and CDR3-like repertoires, k=1..3; histories "
                "of 1-8 lookups against one database object with state snapshots; non-trivial = distinct case with >= 1 hit")
    chk.build_and_audit()
    rng = chk.rng
    thorough = chk.tier == "thorough"
    pools = search.exhaustive_pools(chk.tier)
    aapools = [("ACD", gen.all_strings("ACD", 3)), ("AY", gen.all_strings("AY", 4)), ("CDY", gen.all_strings("CDY", 3))]

    # ---- internal correspondence: _generate_neighbors ~ bfsBall (insertion-ordered dict)
    ops, reals = [], []
    for s in ["", "A", "AC", "AAC", "CAD", "YY", "ACDA"] + [rng.choice(aapools[0][1]) for _ in range(6)]:
        for k in (1, 2):
            if len(s) > 1 and k > 1:
                continue
            for ham in (False, True):
                ops.append({"op": "bfs_ball", "q": s, "k": k, "A": AA, "ham": ham})
                reals.append(core.call_real(lambda s=s, k=k, ham=ham: [[a, int(b)] for a, b in nn._generate_neighbors(s, k, ham).items()]))
    ans = core.run_driver_parallel(ops)
    chk.count("corr:_generate_neighbors", len(ops))
    chk.evaluations += len(ops)
    for o, r, a in zip(ops, reals, ans):
        if r[0] != "ok" or a[0] != "ok" or sorted(r[1]) != sorted(a[1]):
            chk.broken_obligations.append(f"corr:_generate_neighbors~bfsBall differs on {json.dumps(o)}: real={str(r)[:150]} model={str(a)[:150]}")
            break
        if r[1] != a[1]:
            chk.notes.append("bfsBall: same dict, different insertion order (harmless): " + json.dumps(o))

    b = search.Batch(chk, "corr:two-collection")

    def add_symdel(label, ref, qs, k, model=True):
        mop = {"op": "symdel_lookup", "ref": ref, "qs": qs, "k": k, "mode": "lev"} if model else None
        sop = {"op": "brute_cross", "ref": ref, "qs": qs, "k": k, "mode": "lev"}
        meta = {"ref": ref, "qs": qs, "k": k}
        b.add("symdel2|" + label, lambda: nn.symdel(ref, max_edits=k, seqs2=qs), mop, sop, meta)
        b.add("nearest_neighbor2|" + label, lambda: nn.nearest_neighbor(ref, max_edits=k, seqs2=qs), None, sop, meta)
        b.add("SymdelDB.lookup|" + label, lambda: nn.SymdelDB(ref, k).lookup(qs), None, sop, meta)
        if len(ref) <= 10:
            b.add("symdel2-positional-progress|" + label, lambda: nn.symdel(ref, k, None, 1, None, float("inf"), "triplets", qs, True), None, sop, meta)
            b.add("nearest_neighbor2-positional|" + label, lambda: nn.nearest_neighbor(ref, k, None, 1, None, float("inf"), "triplets", qs), None, sop, meta)
            b.add("SymdelDB.lookup-progress|" + label, lambda: nn.SymdelDB(ref, k).lookup(qs, progress=True), None, sop, meta)

    def add_lookupdb(label, ref, qs, k, model=True):
        for pdist in (False, True):
            small = k == 1 and max([len(q) for q in qs] + [0]) <= 6
            mop = {"op": "lookupdb", "ref": ref, "qs": qs, "k": k, "mode": "lev", "pdist": pdist, "A": AA} if (model and small) else None
            if pdist and mop is None:
                continue
            sop = {"op": "brute_cross", "ref": ref, "qs": qs, "k": k, "mode": "lev"}
            meta = {"ref": ref, "qs": qs, "k": k, "pdist": pdist}
            if pdist:
                # specification in pdist mode: drop numerically equal positions
                canon = lambda v: core.canon_trips(v)  # noqa
                b.add("LookupDB.lookup-pdist|" + label, lambda pd=pdist: nn.LookupDB(ref).lookup(qs, max_edits=k, pdist_mode=pd),
                      mop, None, meta, canon=canon)
            else:
                b.add("LookupDB.lookup|" + label, lambda pd=pdist: nn.LookupDB(ref).lookup(qs, max_edits=k, pdist_mode=pd),
                      mop, sop, meta)
                b.add("LookupDB.lookup-progress|" + label, lambda pd=pdist: nn.LookupDB(ref).lookup(qs, k, pd, None, float("inf"), "triplets", True),
                      None, sop, meta)

    corner = [(["CAAA", "CDDD"], ["CAAA", "CDDE"]), (["A"], ["A"]), ([""], ["", "A"]), (["AC", "AC"], ["AC"]),
              (["CAAA", "CDDD", "CADA", "CAAK"], ["CAAF", "CCCC"]), (["AAA", "AA", "A", ""], ["AA"]),
              (["ACD"], ["ACD", "ACD", "ADC", "CD"]), (["AD", "DA"], ["AD", "DA"])]
    for ref, qs in corner:
        for k in (1, 2):
            add_symdel("corner", ref, qs, k)
            add_lookupdb("corner", ref, qs, k)
    n_rand = 60 if not thorough else 600
    for _ in range(n_rand):
        alpha, pool = rng.choice(pools)
        ref = gen.sub_collection(rng, pool, rng.randint(1, 10))
        qs = gen.sub_collection(rng, pool, rng.randint(1, 10)) if rng.random() < 0.8 else list(ref)
        add_symdel(f"E({alpha})", ref, qs, rng.randint(1, 3))
    for _ in range(n_rand):
        alpha, pool = rng.choice(aapools)
        ref = gen.sub_collection(rng, pool, rng.randint(1, 8))
        qs = gen.sub_collection(rng, pool, rng.randint(1, 8)) if rng.random() < 0.8 else list(ref)
        if rng.random() < 0.2:
            qs = qs + ["AXB", "ü"]          # queries may leave the alphabet
        add_lookupdb(f"E({alpha})", ref, qs, rng.randint(1, 2))
    for _ in range(12 if not thorough else 60):
        n1, n2 = rng.choice([(5, 3), (40, 40), (100, 30), (1, 50)])
        ref = gen.repertoire(rng, n1)
        qs = gen.repertoire(rng, n2) + rng.sample(ref, min(3, len(ref)))
        k = rng.choice([1, 2])
        add_symdel("R", ref, qs, k, model=False)
        if k == 1:
            add_lookupdb("R", ref, [q for q in qs], 1, model=False)
    # many references, few queries (>= 8x), any alphabet: the wrappers must behave like the plain search
    for _ in range(10 if not thorough else 80):
        base = rng.choice(["CASSLGXAYEQYF", "CASSL*QAYEQYF", "cassf", "CAS_F", "ABABAB"])
        ref = [gen.mutate(rng, base, "ABX*_qC", rng.randint(0, 2)) for _ in range(rng.randint(16, 40))]
        qs = [rng.choice(ref), gen.mutate(rng, base, "ABX*_qC", 1)][: rng.randint(1, 2)]
        add_symdel("many-refs-any-alphabet", ref, qs, 1, model=False)
    # the SAME object passed as query and reference (list, ndarray, Series): still a two-collection search - every
    # position is reported against itself at distance 0
    import numpy as _np
    import pandas as _pd
    for _ in range(12 if not thorough else 100):
        alpha, pool = rng.choice(aapools)
        xs = gen.sub_collection(rng, pool, rng.randint(1, 7))
        k = rng.randint(1, 2)
        sop = {"op": "brute_cross", "ref": xs, "qs": xs, "k": k, "mode": "lev"}
        meta = {"ref": xs, "qs": xs, "k": k, "same_object": True}
        for cname, cont in (("list", list(xs)), ("ndarray", _np.array(xs)), ("object-ndarray", _np.array(xs, dtype=object)),
                            ("series", _pd.Series(xs, index=range(3, 3 + len(xs))))):
            b.add(f"symdel2|same-object-{cname}", lambda c=cont, k=k: nn.symdel(c, max_edits=k, seqs2=c), None, sop, meta)
            b.add(f"nearest_neighbor2|same-object-{cname}", lambda c=cont, k=k: nn.nearest_neighbor(c, max_edits=k, seqs2=c), None, sop, meta)
            b.add(f"SymdelDB.lookup|same-object-{cname}", lambda c=cont, k=k: nn.SymdelDB(c, k).lookup(c), None, sop, meta)
            b.add(f"LookupDB.lookup|same-object-{cname}", lambda c=cont, k=k: nn.LookupDB(c).lookup(c, max_edits=k), None, sop, meta)
    # many queries in ONE lookup (> 512, > 1024): every hit carries the position of its query in the whole query list
    for nq in ((600, 1100) if not thorough else (513, 600, 1100, 2100, 4200)):
        ref = gen.repertoire(rng, 25, minlen=5, maxlen=8, allow_empty=False)
        qs = [gen.mutate(rng, rng.choice(ref), AA, rng.randint(0, 2)) or "C" for _ in range(nq)]
        qs[nq - 1] = ref[0]
        qs[min(520, nq - 2)] = ref[0]    # duplicates on both sides of a block boundary
        qs[8] = ref[0]
        add_symdel(f"many-queries-{nq}", ref, qs, rng.choice([1, 2]), model=False)
    # very large collections on both sides (position products beyond 2^31): planted query/reference hits at late positions
    def large_lookup(n):
        from Levenshtein import distance as levd
        ref, _pairs = gen.planted(rng, n, n_pairs=0) if False else (["".join(rng.choice(AA) for _ in range(12)) for _ in range(n)], [])
        qs = ["".join(rng.choice(AA) for _ in range(12)) for _ in range(n)]
        want = set()
        for _ in range(12):
            q, r = rng.randrange(n - 300, n), rng.randrange(n - 300, n)
            kpos = rng.randrange(12)
            qs[q] = ref[r][:kpos] + rng.choice([a for a in AA if a != ref[r][kpos]]) + ref[r][kpos + 1:]
        for q in range(n - 300, n):
            for r in range(n - 300, n):
                d = levd(qs[q], ref[r])
                if d <= 1:
                    want.add((q, r, d))
        for name, fn in (("symdel2", lambda: nn.symdel(ref, max_edits=1, seqs2=qs)), ("SymdelDB.lookup", lambda: nn.SymdelDB(ref, 1).lookup(qs))):
            rr = core.call_real(lambda: [(int(a), int(b_), int(d)) for a, b_, d in fn()])
            chk.case(nontrivial_key=("large", name, n))
            chk.count("large-lookup")
            if rr[0] != "ok":
                chk.violation(f"C03|{name}|large|raises-{rr[1]}", f"{name} raised {rr[1]} on {n} x {n} sequences", {"n": n})
                continue
            bad = [t for t in rr[1] if not (0 <= t[0] < n and 0 <= t[1] < n and levd(qs[t[0]], ref[t[1]]) == t[2] <= 1)]
            missing = sorted(want - set(rr[1]))
            if bad or missing or len(set(rr[1])) != len(rr[1]):
                ex = (bad or missing or [None])[0]
                chk.violation(f"C03|{name}|large|{'spurious' if bad else ('missing' if missing else 'repeated')}",
                              f"{name} on {n} queries x {n} references: {len(bad)} reported triplets are not true hits, {len(missing)} planted hits "
                              f"are missing; e.g. {ex}", {"n": n, "example": ex})
    probe_r, probe_q = gen.planted(rng, 3000)[0], gen.planted(rng, 3000)[0]
    if not chk.skip_large("the 50 021 x 50 021 lookup", probe=lambda: nn.symdel(probe_r, max_edits=1, seqs2=probe_q)):
        large_lookup(50021 if not thorough else 70001)
    # all strings of a pool against themselves
    for alpha, pool in pools:
        add_symdel(f"E({alpha})-all", list(pool), list(pool), 2, model=len(pool) <= 45)
    b.run()

    # ---- histories: one object, many lookups, state snapshots
    n_hist = 25 if not thorough else 200
    ops, expect = [], []
    for h in range(n_hist):
        alpha, pool = rng.choice(aapools)
        ref = gen.sub_collection(rng, pool, rng.randint(1, 8))
        k = rng.randint(1, 2)
        kind = rng.choice(["SymdelDB", "LookupDB"])
        st, db = core.call_real(lambda: nn.SymdelDB(ref, k) if kind == "SymdelDB" else nn.LookupDB(ref))
        if st != "ok":
            chk.violation(f"C03|{kind}|build-raises-{db}", f"{kind} build raised {db}", {"ref": ref, "k": k})
            continue
        state0 = copy.deepcopy(db.variant_dict if kind == "SymdelDB" else db.seq_dict)
        hist = []
        for step in range(rng.randint(1, 8)):
            qs = gen.sub_collection(rng, pool, rng.randint(1, 5))
            if rng.random() < 0.2 and hist:
                qs = hist[rng.randrange(len(hist))]            # repeat an earlier lookup
            hist.append(qs)
            kk = k
            mode_h = "lev"
            if kind == "SymdelDB":
                mode_h = rng.choice(["lev", "lev", "ham"])
                if mode_h == "ham":
                    st, val = core.call_real(lambda: core.canon_trips(db.lookup(qs, custom_distance="hamming")))
                else:
                    st, val = core.call_real(lambda: core.canon_trips(db.lookup(qs)))
            else:
                # a LookupDB serves lookups at ANY radius: vary it within one history (ascending, descending, repeated)
                kk = rng.choice([1, 2]) if max(len(q) for q in qs + [""]) <= 3 else 1
                st, val = core.call_real(lambda: core.canon_trips(db.lookup(qs, max_edits=kk)))
            ops.append({"op": "brute_cross", "ref": ref, "qs": qs, "k": kk, "mode": mode_h})
            expect.append((kind, ref, kk, list(hist), (st, val)))
            state1 = db.variant_dict if kind == "SymdelDB" else db.seq_dict
            if state1 != state0 or list(db.seqs) != list(ref):
                chk.violation(f"C03|{kind}|state-changed", f"{kind} stored index changed by a lookup",
                              {"ref": ref, "k": k, "history": hist})
        chk.count("history:" + kind)
    ans = core.run_driver_parallel(ops)
    for (kind, ref, k, hist, real), a in zip(expect, ans):
        spec = ("ok", core.canon_model_trips(a[1])) if a[0] == "ok" else a
        chk.case(sample={"history": hist, "kind": kind, "ref": ref, "k": k} if len(chk.samples) < 6 else None,
                 nontrivial_key=("hist", kind, str(ref), str(hist)) if real[0] == "ok" and real[1] else None)
        if real != spec:
            chk.violation(search.sig_of("C03", f"{kind}.history", real, spec),
                          f"{kind}: lookup #{len(hist)} of a history differs from the one-shot specification",
                          {"kind": kind, "ref": ref, "k": k, "history": hist, "real": str(real)[:2000], "spec": str(spec)[:2000]})


def replay(path):
    nn = search.nn()
    r = json.load(open(path))
    print(json.dumps({k: (v if len(str(v)) < 1500 else str(v)[:1500]) for k, v in r.items()}, indent=1))
    meta = r.get("meta") or r
    if "ref" in meta and "qs" in meta:
        ref, qs, k = meta["ref"], meta["qs"], meta["k"]
        sp = core.run_driver([{"op": "brute_cross", "ref": ref, "qs": qs, "k": k, "mode": "lev"}])[0]
        real1 = core.call_real(lambda: core.canon_trips(nn.symdel(ref, max_edits=k, seqs2=qs)))
        real2 = core.call_real(lambda: core.canon_trips(nn.LookupDB(ref).lookup(qs, max_edits=k)))
        spec = core.canon_model_trips(sp[1])
        print("spec        :", spec)
        print("symdel      :", real1)
        print("LookupDB    :", real2)
        ok = real1 == ("ok", spec) and real2 == ("ok", spec)
        print("verdict:", "holds" if ok else "VIOLATES")
        return 0 if ok else 1
    return 0
