"""C08 — string metrics return true (weighted) edit distances in SciPy layout."""
import json
import warnings

import numpy as np

from harness import core, gen
from harness.gen import AA

TRUSTED = [
    "Lean 4.33.0 kernel; axioms propext, Classical.choice, Quot.sound only (audited per theorem)",
    "rapidfuzz Levenshtein.distance(weights=(ins, del, sub)) / process.cdist are external: modelled by `wlev` (= minimum total weight "
    "of an edit script, theorem C08_wlev_min) and validated differentially against the proved-equal row programme wlevDP",
    "scipy squareform(checks=False) modelled by `condensed` (row-major strict upper triangle)",
    "result dtypes are recorded: uint32 (unit weights) / float32 (weighted) are exact below 2^24, which bounds the 'no wrap-around' claim",
]


def run(chk):
    import pyrepseq.distance as ds
    from pyrepseq.metric import Levenshtein, WeightedLevenshtein
    from scipy.spatial.distance import squareform
    from Levenshtein import distance as levd
    warnings.simplefilter("ignore")
    chk.trusted_base = TRUSTED
    chk.assumptions = ["weights are positive integers", "strings of length 0..400"]
    chk.rule = ("string collections over 1-20 letter alphabets with lengths 0..400 (long homopolymers, long disjoint strings so that "
                "distances exceed 255 and 65535/weight), weight triples 1..50 incl. ins != del and sub > ins + del; the functional "
                "pdist/cdist helpers with Levenshtein, kwargs-recording and constant callables; non-trivial = distinct case with a "
                "non-zero distance")
    chk.build_and_audit()
    rng = chk.rng
    thorough = chk.tier == "thorough"

    def rand_str(alpha, L):
        return "".join(rng.choice(alpha) for _ in range(L))

    colls = []
    for _ in range(25 if not thorough else 250):
        alpha = rng.choice(["A", "AC", "ACD", AA, "ü∆x", "aA-* ", "cC_.1"])     # case, gaps, blanks, punctuation, digits are ordinary characters
        n = rng.randint(1, 7)
        colls.append([rand_str(alpha, rng.choice([0, 1, 2, 5, 13, 40])) for _ in range(n)])
    # long strings: distances > 255 and > 65535 / weight
    colls.append(["A" * 300, "C" * 280, "A" * 150 + "C" * 150, ""])
    colls.append([rand_str("AC", 400), rand_str("DE", 400), rand_str("AC", 399)])
    colls.append(["A" * 400, "", "A" * 399 + "C"])
    weights = [(1, 1, 1), (1, 2, 1), (3, 1, 2), (1, 1, 5), (2, 3, 50), (7, 7, 7), (50, 1, 1), (1, 50, 20), (2, 2, 2)]
    ops, checks = [], []
    # every run: weight triples whose gap weights share a factor the substitution weight lacks, and substitution weights strictly
    # between one and two gap weights (substitutions are then neither free, nor an insertion + deletion, nor a multiple of the unit)
    mixed = [(2, 2, 3), (2, 4, 3), (3, 3, 4), (2, 2, 1), (3, 3, 5), (4, 4, 7), (6, 4, 5), (2, 2, 5)]
    small = ["CAT", "CAG", "CA", "TTTT", "", "GAT", "CATCAT", "TAC"]
    # strings that LOOK like missing-value markers are strings ("NA" is asparagine-alanine), and a copy of a metric object measures
    # what the original measures
    import copy as _copy
    tokens = ["NA", "", "NAA", "nan", "None", "NULL", "N", "A", "NaN"]
    tok_cases = []
    for (wi, wd, ws) in ((1, 1, 1), (2, 3, 4)):
        m0 = WeightedLevenshtein(insertion_weight=wi, deletion_weight=wd, substitution_weight=ws) if (wi, wd, ws) != (1, 1, 1) else Levenshtein()
        for mlabel, metric in (("original", m0), ("copy.copy", _copy.copy(m0)), ("copy.deepcopy", _copy.deepcopy({"m": m0})["m"])):
            tok_cases.append((wi, wd, ws, mlabel, metric))
    for (wi, wd, ws) in mixed:
        metric = WeightedLevenshtein(insertion_weight=wi, deletion_weight=wd, substitution_weight=ws)
        mf = {"metric": "wlev", "wi": wi, "wd": wd, "ws": ws}
        xs_, ys_ = rng.sample(small, 5), rng.sample(small, 4)
        meta = {"xs": xs_, "ys": ys_, "w": [wi, wd, ws]}
        ops.append({"op": "cdist_mat", "as": xs_, "bs": ys_, **mf})
        checks.append(("cdist", meta, core.call_real(lambda: np.asarray(metric.calc_cdist_matrix(xs_, ys_)))))
        ops.append({"op": "pdist_vec", "xs": xs_, **mf})
        checks.append(("pdist", meta, core.call_real(lambda: np.asarray(metric.calc_pdist_vector(xs_)))))
        # the SAME object on both sides (every cell, also below the diagonal: with unequal gap weights the matrix is not symmetric)
        ops.append({"op": "cdist_mat", "as": xs_, "bs": xs_, **mf})
        checks.append(("cdist-same-object", {**meta, "ys": "the same object as xs"}, core.call_real(lambda: np.asarray(metric.calc_cdist_matrix(xs_, xs_)))))
    for (wi, wd, ws, mlabel, metric) in tok_cases:
        mf = {"metric": "wlev", "wi": wi, "wd": wd, "ws": ws}
        meta = {"xs": tokens, "ys": tokens[:4], "w": [wi, wd, ws], "metric_object": mlabel}
        ops.append({"op": "cdist_mat", "as": tokens, "bs": tokens[:4], **mf})
        checks.append(("cdist", meta, core.call_real(lambda metric=metric: np.asarray(metric.calc_cdist_matrix(tokens, tokens[:4])))))
        ops.append({"op": "pdist_vec", "xs": tokens, **mf})
        checks.append(("pdist", meta, core.call_real(lambda metric=metric: np.asarray(metric.calc_pdist_vector(tokens)))))
    for xs in colls:
        ys = rng.choice(colls)
        big = max(len(s) for s in xs + ys) > 100
        for (wi, wd, ws) in ([(1, 1, 1)] + rng.sample(weights[1:], 2 if not big else 3)):
            unit = (wi, wd, ws) == (1, 1, 1)
            metric = Levenshtein() if unit and rng.random() < 0.5 else WeightedLevenshtein(insertion_weight=wi, deletion_weight=wd, substitution_weight=ws)
            mf = {"metric": "wlev", "wi": wi, "wd": wd, "ws": ws}
            meta = {"xs": xs if not big else [f"len{len(s)}" for s in xs], "ys": ys if not big else [f"len{len(s)}" for s in ys], "w": [wi, wd, ws]}
            if rng.random() < 0.4:
                # the metric OBJECT has been used by other functions before (also by a call that raised half-way): it still measures the same
                warm = [rand_str("ACD", rng.randint(1, 9)) for _ in range(4)]
                core.call_real(lambda: ds.pcDelta(warm, metric=metric, bins=np.arange(0, 4)))
                core.call_real(lambda: ds.pcDelta(warm + [None], metric=metric, bins=np.arange(0, 3)))
                core.call_real(lambda: ds.pcDelta(warm, [None, "A"], metric=metric, bins=[0, 1, 2]))
                core.call_real(lambda: ds.hierarchical_clustering(warm, metric=metric))
                meta["metric_used_before"] = True
            rc = core.call_real(lambda: np.asarray(metric.calc_cdist_matrix(xs, ys)))
            rp = core.call_real(lambda: np.asarray(metric.calc_pdist_vector(xs)))
            ops.append({"op": "cdist_mat", "as": xs, "bs": ys, **mf})
            checks.append(("cdist", meta, rc))
            ops.append({"op": "pdist_vec", "xs": xs, **mf})
            checks.append(("pdist", meta, rp))
            # squareform consistency of the REAL vector with the REAL square matrix (valid input for linkage/squareform)
            if rc[0] == "ok" and rp[0] == "ok" and len(xs) >= 2:
                sq = core.call_real(lambda: np.asarray(metric.calc_cdist_matrix(xs, xs)))
                if not big:
                    ops.append({"op": "cdist_mat", "as": xs, "bs": xs, **mf})
                    checks.append(("cdist-same-object", {**meta, "ys": "the same object as xs"}, sq))
                m = len(xs)
                okl = all(rp[1][m * i + j - ((i + 2) * (i + 1)) // 2] == sq[1][i, j] for i in range(m) for j in range(i + 1, m))
                if not okl or len(rp[1]) != m * (m - 1) // 2:
                    chk.violation("C08|calc_pdist_vector|layout", "calc_pdist_vector is not the condensed upper triangle (index m*i + j - (i+2)(i+1)/2)", meta)
                if wi == wd:
                    back = squareform(rp[1].astype(float))
                    if not np.array_equal(back, sq[1].astype(float)):
                        chk.violation("C08|calc_pdist_vector|squareform-roundtrip", "scipy squareform of the pdist vector differs from the cdist matrix", meta)
    # a collection of more than 1024 (and 2048) strings: entries of the condensed vector sampled at random and at block boundaries
    for m_big, w in ((1100, (1, 1, 1)), (2100, (1, 2, 3))) if not thorough else ((1100, (1, 1, 1)), (2100, (1, 2, 3)), (4200, (1, 1, 1))):
        big = [rand_str("ACDE", rng.randint(0, 7)) for _ in range(m_big)]
        metric = Levenshtein() if w == (1, 1, 1) else WeightedLevenshtein(insertion_weight=w[0], deletion_weight=w[1], substitution_weight=w[2])
        rp = core.call_real(lambda: np.asarray(metric.calc_pdist_vector(big)))
        chk.case(nontrivial_key=("pdist-large", m_big))
        chk.count("pdist-large")
        if rp[0] != "ok" or rp[1].shape != (m_big * (m_big - 1) // 2,):
            chk.violation("C08|calc_pdist_vector|large|shape", f"calc_pdist_vector on {m_big} strings: {str(rp)[:120]}", {"m": m_big})
            continue
        pairs = [(rng.randrange(m_big - 1), None) for _ in range(150)] + [(i, None) for i in (0, 1022, 1023, 1024, 1025, m_big - 2) if i < m_big - 1]
        pairs = [(i, rng.randrange(i + 1, m_big)) for i, _ in pairs] + [(1023, 1024), (1024, m_big - 1), (0, m_big - 1), (m_big - 2, m_big - 1)]
        pops = [{"op": "wlev", "a": big[i], "b": big[j], "wi": w[0], "wd": w[1], "ws": w[2]} for i, j in pairs]
        for (i, j), a in zip(pairs, core.run_driver_parallel(pops)):
            pos = m_big * i + j - ((i + 2) * (i + 1)) // 2
            chk.evaluations += 1
            if a[0] != "ok" or int(rp[1][pos]) != int(a[1]):
                chk.violation("C08|calc_pdist_vector|large|entry", f"calc_pdist_vector on {m_big} strings: entry for (i, j) = ({i}, {j}) at index {pos} is "
                              f"{rp[1][pos]}, the distance of {big[i]!r} and {big[j]!r} is {a}", {"m": m_big, "i": i, "j": j, "a": big[i], "b": big[j], "weights": list(w)})
                break
    # functional helpers: any metric callable, kwargs forwarded
    seen_kwargs = []

    def recording(a, b, **kw):
        seen_kwargs.append(dict(kw))
        return (len(a) * 3 + len(b)) % 11 + kw.get("offset", 0)

    for _ in range(20 if not thorough else 200):
        xs = [rand_str("ACD", rng.randint(0, 6)) for _ in range(rng.randint(0, 6))]
        ys = [rand_str("ACD", rng.randint(0, 6)) for _ in range(rng.randint(0, 5))]
        strs = sorted(set(xs + ys))
        table = {"metric": "table", "strs": strs, "dm": [[str(recording(a, b, offset=2)) for b in strs] for a in strs]}
        seen_kwargs.clear()
        meta = {"xs": xs, "ys": ys}
        rp = core.call_real(lambda: np.asarray(ds.pdist(xs, metric=recording, offset=2)))
        n_calls = len(seen_kwargs)
        if any(kw != {"offset": 2} for kw in seen_kwargs) or (rp[0] == "ok" and n_calls != len(xs) * (len(xs) - 1) // 2):
            chk.violation("C08|pdist|kwargs", "distance.pdist does not forward extra keyword arguments to the metric for each pair once", meta)
        seen_kwargs.clear()
        rc = core.call_real(lambda: np.asarray(ds.cdist(xs, ys, metric=recording, offset=2)))
        if any(kw != {"offset": 2} for kw in seen_kwargs) or (rc[0] == "ok" and len(seen_kwargs) != len(xs) * len(ys)):
            chk.violation("C08|cdist|kwargs", "distance.cdist does not forward extra keyword arguments to the metric", meta)
        ops.append({"op": "pdist_loop", "xs": xs, **table})
        checks.append(("pdist-fn", meta, rp))
        ops.append({"op": "cdist_mat", "as": xs, "bs": ys, **table})
        checks.append(("cdist-fn", meta, rc))
        # the helpers take any iterable: a pandas Series with permuted / filtered labels is read positionally
        import pandas as pd
        if len(xs) >= 2:
            perm = rng.sample(range(len(xs)), len(xs))
            sx = pd.Series(xs, index=perm)
            sy = pd.Series(ys, index=[i * 3 + 1 for i in range(len(ys))])
            ops.append({"op": "pdist_loop", "xs": xs, "metric": "lev"})
            checks.append(("pdist-fn-series", meta, core.call_real(lambda: np.asarray(ds.pdist(sx)))))
            ops.append({"op": "cdist_mat", "as": xs, "bs": ys, "metric": "lev"})
            checks.append(("cdist-fn-series", meta, core.call_real(lambda: np.asarray(ds.cdist(sx, sy)))))
        # the same collection on both sides (the same object, and an equal copy): every cell, the zero diagonal included
        if xs:
            ops.append({"op": "cdist_mat", "as": xs, "bs": xs, "metric": "lev"})
            checks.append(("cdist-fn-same-object", meta, core.call_real(lambda: np.asarray(ds.cdist(xs, xs)))))
            ops.append({"op": "cdist_mat", "as": xs, "bs": xs, "metric": "lev"})
            checks.append(("cdist-fn-equal-copy", meta, core.call_real(lambda: np.asarray(ds.cdist(xs, list(xs))))))
        # keyword arguments reach the DEFAULT metric too (python-Levenshtein's distance takes weights=(insertion, deletion, substitution))
        if len(xs) >= 2 and _ % 4 == 0:
            ops.append({"op": "pdist_vec", "xs": xs, "metric": "wlev", "wi": 1, "wd": 4, "ws": 2})
            checks.append(("pdist-fn-default-metric-kwargs", meta, core.call_real(lambda: np.asarray(ds.pdist(xs, weights=(1, 4, 2))))))
            ops.append({"op": "cdist_mat", "as": xs, "bs": ys, "metric": "wlev", "wi": 3, "wd": 1, "ws": 2})
            checks.append(("cdist-fn-default-metric-kwargs", meta, core.call_real(lambda: np.asarray(ds.cdist(xs, ys, weights=(3, 1, 2))))))
        # default metric of the helpers is Levenshtein
        ops.append({"op": "pdist_loop", "xs": xs, "metric": "lev"})
        checks.append(("pdist-fn-default", meta, core.call_real(lambda: np.asarray(ds.pdist(xs)))))
    ans = core.run_driver_parallel(ops, nproc=8)
    dtypes = {}
    for (kind, meta, real), a, op in zip(checks, ans, ops):
        chk.case(sample={"kind": kind, **meta} if chk.evaluations % 50 == 0 and len(str(meta)) < 400 else None,
                 nontrivial_key=(kind, json.dumps(op, sort_keys=True)[:500]) if a[0] == "ok" and np.any(np.asarray([[0]] if not a[1] else a[1], dtype=object) != "0") else None)
        chk.count(kind)
        if real[0] != "ok":
            chk.violation(f"C08|{kind}|raises-{real[1]}", f"{kind} raised {real[1]}", meta)
            continue
        arr = real[1]
        dtypes[str(arr.dtype)] = dtypes.get(str(arr.dtype), 0) + 1
        want = np.array([[int(v) for v in row] for row in a[1]], dtype=object) if kind.startswith("cdist") else np.array([int(v) for v in a[1]], dtype=object)
        if kind.startswith("cdist") and (len(op["as"]) == 0 or len(op["bs"]) == 0):
            ok = arr.size == 0
        else:
            ok = arr.shape == want.shape and all(int(x) == int(y) and float(x) == float(int(y)) for x, y in zip(arr.ravel().tolist(), want.ravel().tolist()))
        if not ok:
            chk.violation(f"C08|{kind}|differs", f"{kind}: real values differ from the unbounded minimum-weight edit distance / layout "
                          f"(dtype {arr.dtype})", {**meta, "real": str(arr.tolist())[:1500], "model": str(a[1])[:1500]})
    chk.hist["result_dtypes"] = dtypes
    # spot oracle: model wlev against an independent implementation (python-Levenshtein, unit weights)
    ops = []
    pairs = [(rand_str("ACD", rng.randint(0, 12)), rand_str("ACD", rng.randint(0, 12))) for _ in range(200)]
    for a, b in pairs:
        ops.append({"op": "wlev", "a": a, "b": b, "wi": 1, "wd": 1, "ws": 1})
        ops.append({"op": "wlev_rec", "a": a[:7], "b": b[:7], "wi": 2, "wd": 3, "ws": 4})
        ops.append({"op": "wlev", "a": a[:7], "b": b[:7], "wi": 2, "wd": 3, "ws": 4})
    ans = core.run_driver_parallel(ops)
    for i, (a, b) in enumerate(pairs):
        if ans[3 * i] != ("ok", levd(a, b)) or ans[3 * i + 1] != ans[3 * i + 2]:
            chk.model_error(f"model wlev disagrees with python-Levenshtein / its own recursive spec on {a!r}, {b!r}")
            break


def replay(path):
    r = json.load(open(path))
    print(json.dumps(r, indent=1)[:3000])
    return 0
