"""C09 — TCR Levenshtein metrics are the stated weighted sum over chains and CDR loops."""
import copy
import csv
import json
import os
import warnings

import numpy as np
import pandas as pd

from harness import core, gen
from harness.gen import AA

TRUSTED = [
    "Lean 4.33.0 kernel; axioms propext, Classical.choice, Quot.sound only (audited per theorem)",
    "rapidfuzz process.cdist with Levenshtein weights is external: modelled by `wlev`",
    "tidytcells.tr.get_aa_sequence (CDR1/CDR2 of a V allele) is external: the harness looks the loops up with the same library and "
    "hands them to the model as data (empty when the allele has no such loop)",
    "pandas column selection / copy / Series.map are modelled by TcrRow / colValue; tied by correspondence incl. before/after snapshots",
]

CLASSES = {
    "AlphaCdr3Levenshtein": ("alpha", "cdr3", ("iw", "dw", "sw")),
    "BetaCdr3Levenshtein": ("beta", "cdr3", ("iw", "dw", "sw")),
    "Cdr3Levenshtein": ("paired", "cdr3", ("iw", "dw", "sw", "aw", "bw")),
    "AlphaCdrLevenshtein": ("alpha", "all", ("iw", "dw", "sw", "c1", "c2", "c3")),
    "BetaCdrLevenshtein": ("beta", "all", ("iw", "dw", "sw", "c1", "c2", "c3")),
    "CdrLevenshtein": ("paired", "all", ("iw", "dw", "sw", "aw", "bw", "c1", "c2", "c3")),
}
KW = {"iw": "insertion_weight", "dw": "deletion_weight", "sw": "substitution_weight", "aw": "alpha_weight", "bw": "beta_weight",
      "c1": "cdr1_weight", "c2": "cdr2_weight", "c3": "cdr3_weight"}


def alleles(chain):
    path = os.path.join(core.REPO, "pyrepseq", "data", f"vdists_{chain}.csv")
    return [r[0] for r in list(csv.reader(open(path)))[1:]]


def run(chk):
    import pyrepseq.metric.tcr_metric as tm
    from tidytcells import tr
    warnings.simplefilter("ignore")
    chk.trusted_base = TRUSTED
    chk.assumptions = ["V alleles known to the tidytcells gene reference", "weights are positive integers"]
    chk.rule = ("six metric classes x weight settings (each weight varied alone and jointly, asymmetric indels) x tables of 1-12 rows over "
                "V alleles of the gene reference (incl. an allele without CDR2) x index variants (default, shifted, permuted, string, "
                "duplicated); caller's frames snapshotted before/after; non-tables rejected; non-trivial = distinct case with a non-zero distance")
    chk.build_and_audit()
    rng = chk.rng
    thorough = chk.tier == "thorough"

    def loops(v):
        d = tr.get_aa_sequence(v)
        return d.get("CDR1-IMGT", ""), d.get("CDR2-IMGT", "")

    va = [a for a in alleles("alpha")[:40] if core.call_real(lambda: loops(a))[0] == "ok"] + ["TRAV40*01"]
    vb = [b for b in alleles("beta")[:40] if core.call_real(lambda: loops(b))[0] == "ok"]
    roots = gen.repertoire(rng, 4, minlen=6, maxlen=12, allow_empty=False)

    def table(n):
        rows = []
        for _ in range(n):
            rows.append({"TRAV": rng.choice(va), "CDR3A": gen.mutate(rng, rng.choice(roots), AA, rng.randint(0, 3)), "TRAJ": "TRAJ1*01",
                         "TRBV": rng.choice(vb), "CDR3B": gen.mutate(rng, rng.choice(roots), AA, rng.randint(0, 3)), "TRBJ": "TRBJ1-1*01",
                         "clone_count": rng.randint(1, 9)})
        df = pd.DataFrame(rows)
        kind = rng.choice(["default", "shifted", "permuted", "string", "duplicated"])
        n = len(df)
        if kind == "shifted":
            df.index = range(50, 50 + n)
        elif kind == "permuted":
            df.index = rng.sample(range(n), n)
        elif kind == "string":
            df.index = [f"tcr{i}" for i in range(n)]
        elif kind == "duplicated":
            df.index = [i // 2 for i in range(n)]
        # a NAMED index, also one whose name is that of a column (set_index(col, drop=False), index.name = "TRAV"), and tables that already
        # carry CDR1x / CDR2x columns (from an earlier export) which no longer match the V alleles: the loops come from the V allele
        nm = rng.random()
        if nm < 0.15:
            df.index.name = rng.choice(["TRAV", "CDR3B", "clone_count", "sample"])
            kind = kind + "+index-named-" + df.index.name
        elif nm < 0.25 and kind.split("+")[0] != "duplicated":
            df = df.set_index("CDR3B", drop=False)
            kind = kind + "+index-is-column"
        if rng.random() < 0.2:
            for col in rng.sample(["CDR1A", "CDR2A", "CDR1B", "CDR2B"], rng.randint(2, 4)):
                df[col] = [rng.choice(["SSYSPS", "YTSAATLV", "", "QQQ"]) for _ in range(len(df))]
            kind = kind + "+stale-cdr-columns"
        # column dtypes: plain objects, pandas categoricals, the nullable string dtype - values are what counts, and the caller's
        # table (dtypes included) must come back untouched
        dt = rng.choice(["object", "object", "category", "string"])
        if dt != "object":
            for col in rng.sample(["CDR3A", "CDR3B", "TRAV", "TRBV"], rng.randint(1, 4)):
                df[col] = df[col].astype(dt)
            kind = kind + "+" + dt
        return df, kind

    def model_rows(df):
        out = []
        for r in df.itertuples(index=False):
            a1, a2 = loops(r.TRAV)
            b1, b2 = loops(r.TRBV)
            out.append([a1, a2, r.CDR3A, b1, b2, r.CDR3B])
        return out

    ops, checks = [], []
    n_cases = 50 if not thorough else 500
    for t in range(n_cases):
        cname = rng.choice(list(CLASSES))
        chain, cdr, allowed = CLASSES[cname]
        w = {"iw": 1, "dw": 1, "sw": 1, "aw": 1, "bw": 1, "c1": 1, "c2": 1, "c3": 1}
        mode = rng.choice(["default", "one", "joint", "uniform", "mixed"]) if t >= 8 else "mixed"
        if mode == "mixed":
            # every run: gap weights sharing a factor the substitution weight lacks; a substitution weight strictly between one and two
            # gap weights; unequal gap weights
            w["iw"], w["dw"], w["sw"] = [(2, 2, 3), (3, 3, 4), (3, 3, 5), (4, 4, 7), (2, 4, 3), (2, 2, 1), (1, 3, 2), (3, 1, 2)][t % 8]
        elif mode == "one":
            k = rng.choice(allowed)
            w[k] = rng.randint(2, 7)
        elif mode == "joint":
            for k in allowed:
                w[k] = rng.randint(1, 6)
        elif mode == "uniform":
            w["iw"] = w["dw"] = w["sw"] = rng.choice([2, 3, 5])       # equal edit weights other than 1 scale every distance
        if t < 8:
            cname = list(CLASSES)[t % len(CLASSES)]
            chain, cdr, allowed = CLASSES[cname]
        kwargs = {KW[k]: w[k] for k in allowed if w[k] != 1 or rng.random() < 0.3}
        if t in (8, 9):
            # (the paired CDR3 metric with its default weights / with equal non-unit chain weights, on the sliding-chain table below)
            cname = "Cdr3Levenshtein"
            chain, cdr, allowed = CLASSES[cname]
            w = {"iw": 1, "dw": 1, "sw": 1, "aw": t - 7, "bw": t - 7, "c1": 1, "c2": 1, "c3": 1}
            kwargs = {} if t == 8 else {"alpha_weight": 2, "beta_weight": 2}
        metric = getattr(tm, cname)(**kwargs)
        A, ka = table(rng.randint(1, 12))
        B, kb = table(rng.randint(1, 8))
        if t in (8, 9, 10) and len(A) >= 2 and len(B) >= 2:
            # every run: CDR3s whose residues "slide" across the pair of chains (the end of one alpha resembles the start of a beta)
            A = A.astype({"CDR3A": object, "CDR3B": object})
            B = B.astype({"CDR3A": object, "CDR3B": object})
            A.iloc[0, A.columns.get_loc("CDR3A")], A.iloc[0, A.columns.get_loc("CDR3B")] = "CAVRDGNT", "CASSLGF"
            A.iloc[1, A.columns.get_loc("CDR3A")], A.iloc[1, A.columns.get_loc("CDR3B")] = "CAVRD", "GNTCASSLGF"
            B.iloc[0, B.columns.get_loc("CDR3A")], B.iloc[0, B.columns.get_loc("CDR3B")] = "CAVRD", "GNTCASSLGF"
            B.iloc[1, B.columns.get_loc("CDR3A")], B.iloc[1, B.columns.get_loc("CDR3B")] = "CAVRDGNT", "CASSLGF"
        A0, B0 = A.copy(deep=True), B.copy(deep=True)
        rc = core.call_real(lambda: np.asarray(metric.calc_cdist_matrix(A, B)))
        rp = core.call_real(lambda: np.asarray(metric.calc_pdist_vector(A)))
        unchanged = (A.equals(A0) and B.equals(B0) and list(A.columns) == list(A0.columns) and list(A.index) == list(A0.index)
                     and list(map(str, A.dtypes)) == list(map(str, A0.dtypes)) and list(map(str, B.dtypes)) == list(map(str, B0.dtypes)))
        wl = [w["iw"], w["dw"], w["sw"], w["aw"], w["bw"], w["c1"], w["c2"], w["c3"]]
        meta = {"class": cname, "kwargs": kwargs, "index_kinds": [ka, kb], "n": [len(A), len(B)]}
        ma, mb = model_rows(A), model_rows(B)
        ops.append({"op": "tcr_cdist", "chain": chain, "cdr": cdr, "w": wl, "as": ma, "bs": mb})
        checks.append(("cdist", meta, rc, unchanged, (ma, mb)))
        ops.append({"op": "tcr_pdist", "chain": chain, "cdr": cdr, "w": wl, "xs": ma})
        checks.append(("pdist", meta, rp, unchanged, (ma, None)))
        # a comparison table with NO rows (a filter that matched nothing): a matrix of len(A) rows and no column; and the reverse
        if t < 12:
            E = B.iloc[0:0]
            r0 = core.call_real(lambda: np.asarray(metric.calc_cdist_matrix(A, E)).shape)
            r1 = core.call_real(lambda: np.asarray(metric.calc_cdist_matrix(E, A)).shape)
            chk.count("cdist:empty-table")
            if r0 != ("ok", (len(A), 0)) or r1 != ("ok", (0, len(A))):
                chk.violation(f"C09|{cname}|cdist|empty-table", f"{cname}.calc_cdist_matrix with a table of no rows gives shapes {r0} / {r1}, expected "
                              f"({len(A)}, 0) / (0, {len(A)})", meta)
        # both tables given by keyword, the second one first: the roles are decided by the NAMES, not by the order they are written in
        rk = core.call_real(lambda: np.asarray(metric.calc_cdist_matrix(comparisons=B, anchors=A)))
        ops.append({"op": "tcr_cdist", "chain": chain, "cdr": cdr, "w": wl, "as": ma, "bs": mb})
        checks.append(("cdist", {**meta, "call": "calc_cdist_matrix(comparisons=B, anchors=A)"}, rk, unchanged, (ma, mb)))
        # the SAME table object on both sides: every cell (with unequal gap weights the matrix is not symmetric)
        rs = core.call_real(lambda: np.asarray(metric.calc_cdist_matrix(A, A)))
        ops.append({"op": "tcr_cdist", "chain": chain, "cdr": cdr, "w": wl, "as": ma, "bs": ma})
        checks.append(("cdist", {**meta, "comparisons": "the same object as anchors"}, rs, A.equals(A0), (ma, ma)))
        # row order invariance on the real code: permuting the rows permutes the matrix
        if len(A) > 1 and rc[0] == "ok":
            perm = rng.sample(range(len(A)), len(A))
            rc2 = core.call_real(lambda: np.asarray(metric.calc_cdist_matrix(A.iloc[perm], B)))
            if rc2[0] != "ok" or not np.array_equal(rc2[1], rc[1][perm, :]):
                chk.violation("C09|row-order", f"{cname}: permuting the anchor rows does not permute the matrix rows", meta)
    # ---- the same table object edited in place between two calls (CDR3 cell, V allele, or both): the second result
    # is that of the table as it is NOW, for the same metric object and for a new one of any class
    for t in range(12 if not thorough else 100):
        cname = rng.choice(list(CLASSES))
        chain, cdr, allowed = CLASSES[cname]
        metric = getattr(tm, cname)()
        A, ka = table(rng.randint(2, 7))
        A = A.astype({c: object for c in ("CDR3A", "CDR3B", "TRAV", "TRBV")})      # cells of this table are overwritten below
        core.call_real(lambda: metric.calc_pdist_vector(A))
        core.call_real(lambda: metric.calc_cdist_matrix(A, A))
        what = rng.choice(["cdr3", "cdr3", "v", "both"])
        r_ = rng.randrange(len(A))
        if what in ("cdr3", "both"):
            for col in ("CDR3A", "CDR3B"):
                A.iloc[r_, A.columns.get_loc(col)] = gen.mutate(rng, A.iloc[r_][col], AA, rng.randint(1, 3)) + "W"
        if what in ("v", "both"):
            A.iloc[r_, A.columns.get_loc("TRAV")] = rng.choice(va)
            A.iloc[r_, A.columns.get_loc("TRBV")] = rng.choice(vb)
        cname2 = cname if rng.random() < 0.5 else rng.choice(list(CLASSES))
        chain2, cdr2, _al = CLASSES[cname2]
        metric2 = metric if cname2 == cname and rng.random() < 0.6 else getattr(tm, cname2)()
        A0 = A.copy(deep=True)
        rp = core.call_real(lambda: np.asarray(metric2.calc_pdist_vector(A)))
        rc = core.call_real(lambda: np.asarray(metric2.calc_cdist_matrix(A, A)))
        meta = {"class": cname2, "kwargs": {}, "index_kinds": [ka, ka], "n": [len(A), len(A)], "history": f"{cname} on the table, then {what} of row {r_} edited in place"}
        ma = model_rows(A)
        wl = [1] * 8
        ops.append({"op": "tcr_pdist", "chain": chain2, "cdr": cdr2, "w": wl, "xs": ma})
        checks.append(("pdist", meta, rp, A.equals(A0), (ma, None)))
        ops.append({"op": "tcr_cdist", "chain": chain2, "cdr": cdr2, "w": wl, "as": ma, "bs": ma})
        checks.append(("cdist", meta, rc, A.equals(A0), (ma, ma)))
    # ---- a large table (>= 1000 rows, few distinct CDR3s, so many rows share their CDR3s but differ in V allele):
    # entries of the condensed vector sampled at random positions against the model of the two rows
    for cname in (["CdrLevenshtein", "AlphaCdrLevenshtein"] if not thorough else list(CLASSES)):
        chain, cdr, allowed = CLASSES[cname]
        nbig = 1003
        c3a = [gen.mutate(rng, roots[0], AA, 1) for _ in range(4)]
        c3b = [gen.mutate(rng, roots[1], AA, 1) for _ in range(3)]
        vsa, vsb = rng.sample(va, 4), rng.sample(vb, 3)
        big = pd.DataFrame({"TRAV": [rng.choice(vsa) for _ in range(nbig)], "CDR3A": [rng.choice(c3a) for _ in range(nbig)],
                            "TRBV": [rng.choice(vsb) for _ in range(nbig)], "CDR3B": [rng.choice(c3b) for _ in range(nbig)]},
                           index=[i // 3 for i in range(nbig)])
        metric = getattr(tm, cname)(cdr1_weight=2) if "c1" in allowed else getattr(tm, cname)()
        wl = [1, 1, 1, 1, 1, 2 if "c1" in allowed else 1, 1, 1]
        rbig = core.call_real(lambda: np.asarray(metric.calc_pdist_vector(big)))
        rowsb = model_rows(big)
        if rbig[0] != "ok" or len(rbig[1]) != nbig * (nbig - 1) // 2:
            chk.violation(f"C09|{cname}|pdist-large|shape", f"{cname}.calc_pdist_vector on {nbig} rows: {str(rbig)[:100]}", {"class": cname, "n": nbig})
            continue
        for _ in range(60):
            i = rng.randrange(nbig - 1)
            j = rng.randrange(i + 1, nbig)
            pos = nbig * i + j - ((i + 2) * (i + 1)) // 2
            ops.append({"op": "tcr_cdist", "chain": chain, "cdr": cdr, "w": wl, "as": [rowsb[i]], "bs": [rowsb[j]]})
            checks.append(("cdist", {"class": cname, "kwargs": {"cdr1_weight": 2} if "c1" in allowed else {}, "index_kinds": ["large-duplicated"], "n": [nbig],
                                     "entry": [i, j]}, ("ok", np.array([[rbig[1][pos]]])), True, ([rowsb[i]], [rowsb[j]])))
    ans = core.run_driver_parallel(ops, nproc=8)
    for (kind, meta, real, unchanged, rows), a, op in zip(checks, ans, ops):
        want = a[1]
        nz = bool(want) and any(v != 0 for row in (want if kind == "cdist" else [want]) for v in row)
        chk.case(sample=meta if chk.evaluations % 25 == 0 else None,
                 nontrivial_key=(kind, json.dumps(meta, sort_keys=True), str(rows)[:300]) if nz else None)
        chk.count(f"{meta['class']}:{kind}")
        if not unchanged:
            chk.violation(f"C09|{meta['class']}|mutates-input", f"{meta['class']}.{kind} modified the caller's table", meta)
        if real[0] != "ok":
            chk.violation(f"C09|{meta['class']}|{kind}|raises-{real[1]}", f"{meta['class']} {kind} raised {real[1]}", {**meta, "rows": rows})
            continue
        got = [[int(v) for v in row] for row in real[1].tolist()] if kind == "cdist" else [int(v) for v in real[1].tolist()]
        if got != want:
            chk.violation(f"C09|{meta['class']}|{kind}|differs", f"{meta['class']} {kind} is not the weighted sum over chains and loops in scope",
                          {**meta, "rows": rows, "real": str(got)[:1500], "model": str(want)[:1500]})

    # ---- additivity on the real code: Cdr3 = aw * AlphaCdr3 + bw * BetaCdr3; CdrAll likewise
    for _ in range(10 if not thorough else 100):
        A, _k = table(rng.randint(2, 8))
        B, _k = table(rng.randint(1, 6))
        aw, bw, iw, dw, sw = (rng.randint(1, 5) for _ in range(5))
        c1, c2, c3 = (rng.randint(1, 4) for _ in range(3))
        base = dict(insertion_weight=iw, deletion_weight=dw, substitution_weight=sw)
        lhs = core.call_real(lambda: tm.Cdr3Levenshtein(alpha_weight=aw, beta_weight=bw, **base).calc_cdist_matrix(A, B))
        rhs = core.call_real(lambda: aw * tm.AlphaCdr3Levenshtein(**base).calc_cdist_matrix(A, B) + bw * tm.BetaCdr3Levenshtein(**base).calc_cdist_matrix(A, B))
        lhs2 = core.call_real(lambda: tm.CdrLevenshtein(alpha_weight=aw, beta_weight=bw, cdr1_weight=c1, cdr2_weight=c2, cdr3_weight=c3, **base).calc_cdist_matrix(A, B))
        rhs2 = core.call_real(lambda: aw * tm.AlphaCdrLevenshtein(cdr1_weight=c1, cdr2_weight=c2, cdr3_weight=c3, **base).calc_cdist_matrix(A, B)
                              + bw * tm.BetaCdrLevenshtein(cdr1_weight=c1, cdr2_weight=c2, cdr3_weight=c3, **base).calc_cdist_matrix(A, B))
        chk.case(nontrivial_key=("additive", aw, bw, iw, dw, sw, c1, c2, c3, len(A), len(B)))
        for name, l, r in (("cdr3", lhs, rhs), ("all", lhs2, rhs2)):
            if l[0] != "ok" or r[0] != "ok" or not np.array_equal(np.asarray(l[1]), np.asarray(r[1])):
                chk.violation(f"C09|additive-{name}", f"paired metric != alpha_weight*alpha + beta_weight*beta ({name})",
                              {"aw": aw, "bw": bw, "w": [iw, dw, sw], "cdr": [c1, c2, c3]})
    # ---- validation: non-tables are rejected with ValueError
    good, _k = table(3)
    bad_inputs = [("list", ["CASSL", "CASSQ"]), ("series", pd.Series(["CASSL"])), ("frame-without-tcr-columns", pd.DataFrame({"x": [1, 2]})),
                  ("tuple", (["CA"], ["CB"])), ("none", None)]
    mcols = core.run_driver([{"op": "is_standard_format", "isDataFrame": True, "columns": ["x"]},
                             {"op": "is_standard_format", "isDataFrame": False, "columns": ["CDR3B"]},
                             {"op": "is_standard_format", "isDataFrame": True, "columns": ["x", "CDR3B"]}])
    if [m[1] for m in mcols] != [False, False, True]:
        chk.broken_obligations.append(f"model isStandardFormat misclassifies: {mcols}")
    for cname in CLASSES:
        metric = getattr(tm, cname)()
        for name, obj in bad_inputs:
            for call in ("cdist-anchor", "cdist-comparison", "pdist"):
                if call == "cdist-anchor":
                    r = core.call_real(lambda: metric.calc_cdist_matrix(obj, good))
                elif call == "cdist-comparison":
                    r = core.call_real(lambda: metric.calc_cdist_matrix(good, obj))
                else:
                    r = core.call_real(lambda: metric.calc_pdist_vector(obj))
                chk.case(nontrivial_key=("reject", cname, name, call))
                chk.count("reject")
                if r != ("error", "ValueError"):
                    chk.violation(f"C09|{cname}|{name}|not-rejected", f"{cname}.{call} on a {name} gave {str(r)[:80]} instead of ValueError",
                                  {"class": cname, "input": name, "call": call})
    # ---- column selection / weight rule (internal correspondences)
    for cname, (chain, cdr, _a) in CLASSES.items():
        real = list(getattr(tm, cname)()._get_columns_to_compare())
        a = core.run_driver([{"op": "columns_to_compare", "chain": chain, "cdr": cdr}])[0]
        if a != ("ok", real):
            chk.broken_obligations.append(f"corr:_get_columns_to_compare~columnsToCompare differs for {cname}: real={real} model={a}")


def replay(path):
    r = json.load(open(path))
    print(json.dumps(r, indent=1)[:3000])
    return 0
