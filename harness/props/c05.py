"""C05 — pcDelta is the exact histogram of all pairwise distances."""
import json
import warnings
from collections import Counter
from fractions import Fraction

import numpy as np
import pandas as pd

from harness import core, gen
from harness.gen import AA

TRUSTED = [
    "Lean 4.33.0 kernel; axioms propext, Classical.choice, Quot.sound only (audited per theorem)",
    "numpy.histogram with explicit increasing edges is modelled by `histogram` (half-open bins, last closed, outside ignored) over Q",
    "the random sub-sample of maxseqs is modelled by the relation IsDownsample (any size-m sub-multiset); NumPy's RNG is not modelled",
    "metrics enter the model as exact distance tables computed by the harness from the real Metric object (rapidfuzz external)",
    "normalised floats are compared with the model's exact rationals within 1e-12",
]


def metric_table(metric, strs):
    strs = sorted(set(strs))
    M = np.asarray(metric.calc_cdist_matrix(strs, strs))
    return {"metric": "table", "strs": strs, "dm": [[core.fstr(v) for v in row] for row in M.tolist()]}


def run(chk):
    import pyrepseq.distance as ds
    import pyrepseq.stats as st
    from pyrepseq.metric import Levenshtein, WeightedLevenshtein, Metric
    from pyrepseq.metric.tcr_metric import AlphaCdr3Levenshtein, BetaCdr3Levenshtein, Cdr3Levenshtein
    warnings.simplefilter("ignore")
    chk.trusted_base = TRUSTED
    chk.assumptions = ["bin edges strictly increasing", "N >= 2"]
    chk.rule = ("random string collections N = 2..60 x bin edge vectors (integer and non-integer, distances beyond the last edge, single "
                "bin) x pseudocounts {0, 1/2, 1, 7/3} x metrics (Levenshtein, asymmetric weighted, constant) x one/two collections; TCR "
                "tables with default metric; bins = 0; maxseqs; background bins; non-trivial = distinct case with a non-zero histogram")
    chk.build_and_audit()
    rng = chk.rng
    thorough = chk.tier == "thorough"

    class ConstMetric(Metric):
        name = "const"

        def calc_cdist_matrix(self, a, b):
            return np.full((len(a), len(b)), 3)

        def calc_pdist_vector(self, a):
            n = len(a)
            return np.full(n * (n - 1) // 2, 3)

    # (also uneven edge vectors whose FIRST bin is as wide as the average bin: [0,2,3,6,8], [1,3,4,7], [0,3,4,5,12])
    edge_sets = [list(range(0, 25)), [0, 1, 2, 3], [0, 1], [1, 2, 4, 8], [0, 0.5, 1.5, 2.5, 10], [2, 3], [0, 1, 2, 3, 4, 5, 6, 7],
                 [0, 2, 3, 6, 8], [1, 3, 4, 7], [0, 3, 4, 5, 12], [0, 2, 4, 6, 8]]
    pseudos = [0, 0.5, 1, Fraction(7, 3)]
    ops, checks = [], []
    pool = gen.all_strings("ACD", 4)
    n_cases = 60 if not thorough else 600
    for t in range(n_cases):
        N = rng.randint(2, 12) if rng.random() < 0.7 else rng.randint(13, 60)
        xs = gen.sub_collection(rng, pool, N) if rng.random() < 0.6 else gen.repertoire(rng, N, minlen=5, maxlen=10, allow_empty=False)
        ys = gen.sub_collection(rng, pool, rng.randint(1, 10)) if rng.random() < 0.4 else None
        if t % 6 == 5:
            # strings are compared as written: mixed case, gap / stop symbols, blanks and punctuation are ordinary characters
            odd = gen.sub_collection(rng, gen.all_strings("aA-* ", 3), min(N, 14))
            xs = odd
            ys = gen.sub_collection(rng, gen.all_strings("aA-*", 3), rng.randint(1, 8)) if ys is not None else None
        edges = rng.choice(edge_sets)
        which = rng.choice(["default", "lev", "wlev", "const"])
        if which in ("default", "lev"):
            metric, mfields = (None if which == "default" else Levenshtein()), {"metric": "lev"}
        elif which == "wlev":
            wi, wd, ws = rng.choice([(1, 2, 1), (3, 1, 2), (1, 1, 5), (2, 2, 3), (2, 2, 2), (3, 3, 3)])      # incl. uniform weights other than 1
            metric = WeightedLevenshtein(insertion_weight=wi, deletion_weight=wd, substitution_weight=ws)
            mfields = {"metric": "wlev", "wi": wi, "wd": wd, "ws": ws}
        else:
            metric = ConstMetric()
            strs = sorted(set(xs + (ys or [])))
            mfields = {"metric": "table", "strs": strs, "dm": [["3"] * len(strs) for _ in strs]}
            if ys is None:
                pass
        jedges = [core.fstr(e) for e in edges]
        base = {"xs": xs, "edges": jedges, **mfields}
        if ys is not None:
            base["xs2"] = ys
        kw = dict(bins=np.array(edges, dtype=float) if any(isinstance(e, float) for e in edges) else list(edges), metric=metric)
        meta = {"xs": xs, "xs2": ys, "edges": [float(e) for e in edges], "metric": which}
        ops.append({"op": "pcdelta", **base})
        checks.append(("counts", meta, core.call_real(lambda: [int(v) for v in ds.pcDelta(xs, ys, normalize=False, **kw)]), None))
        c = rng.choice(pseudos)
        ops.append({"op": "pcdelta_norm", "pseudocount": core.fstr(c), **base})
        checks.append(("norm", {**meta, "pseudocount": float(c)},
                       core.call_real(lambda: [float(v) for v in ds.pcDelta(xs, ys, normalize=True, pseudocount=float(c), **kw)]), None))
    # fewer sequences than comparison sequences (and the reverse) with insertion != deletion weights and strings of different
    # lengths: entry (i, j) is the cost of turning seqs[i] into seqs2[j], not the other way round
    for _ in range(6 if not thorough else 40):
        shorts = [gen.mutate(rng, "CAS", "ACD", 1) or "C" for _ in range(rng.randint(1, 3))]
        longs = [gen.mutate(rng, "CASSLGQF", "ACD", 2) for _ in range(rng.randint(4, 7))]
        wi, wd, ws = rng.choice([(1, 3, 1), (4, 1, 2), (1, 5, 5)])
        metric = WeightedLevenshtein(insertion_weight=wi, deletion_weight=wd, substitution_weight=ws)
        for xs_, ys_ in ((shorts, longs), (longs, shorts)):
            base = {"xs": xs_, "xs2": ys_, "edges": [str(e) for e in range(0, 41)], "metric": "wlev", "wi": wi, "wd": wd, "ws": ws}
            ops.append({"op": "pcdelta", **base})
            checks.append(("counts", {"xs": xs_, "xs2": ys_, "edges": "0..40", "metric": f"wlev{(wi, wd, ws)}"},
                           core.call_real(lambda: [int(v) for v in ds.pcDelta(xs_, ys_, metric=metric, bins=list(range(0, 41)), normalize=False)]), None))
    # no bins given: the documented default range(0, 25) (24 unit bins from 0; distances beyond 24 are not counted)
    for _ in range(6 if not thorough else 40):
        xs = gen.sub_collection(rng, pool, rng.randint(2, 9)) + (["A" * 30, "C" * 3] if rng.random() < 0.5 else [])
        ys = gen.sub_collection(rng, pool, rng.randint(1, 6)) if rng.random() < 0.4 else None
        base = {"xs": xs, "edges": [str(e) for e in range(0, 25)], "metric": "lev"}
        if ys is not None:
            base["xs2"] = ys
        ops.append({"op": "pcdelta", **base})
        checks.append(("counts", {"xs": xs, "xs2": ys, "edges": "default", "metric": "default"},
                       core.call_real(lambda: [int(v) for v in ds.pcDelta(xs, ys, normalize=False)]), None))
        ops.append({"op": "pcdelta_norm", "pseudocount": "0", **base})
        checks.append(("norm", {"xs": xs, "xs2": ys, "edges": "default", "metric": "default", "pseudocount": 0.0},
                       core.call_real(lambda: [float(v) for v in ds.pcDelta(xs, ys)]), None))
    # zero-bin identity on the real code: count at distance 0 = sum n_i (n_i - 1) / 2
    for _ in range(20):
        xs = gen.sub_collection(rng, pool[:15], rng.randint(2, 30))
        real = core.call_real(lambda: int(ds.pcDelta(xs, bins=[0, 1, 2, 3, 50], normalize=False)[0]))
        want = sum(c * (c - 1) // 2 for c in Counter(xs).values())
        chk.case(nontrivial_key=("zero-bin", tuple(xs)) if want else None)
        if real != ("ok", want):
            chk.violation("C05|pcDelta|zero-bin", f"count at distance 0 is {real}, expected sum n_i(n_i-1)/2 = {want}", {"xs": xs})
    # long sequences: distances beyond 255 must land in the right bin (no wrap-around in the distance matrix)
    longs = ["A" * 300, "C" * 300, "A" * 150 + "C" * 150, "A" * 40, "A" * 299 + "C"]
    real = core.call_real(lambda: [int(v) for v in ds.pcDelta(longs, bins=[0, 1, 2, 100, 200, 290, 301], normalize=False)])
    from Levenshtein import distance as levd0
    vals = [levd0(longs[i], longs[j]) for i in range(len(longs)) for j in range(i + 1, len(longs))]
    edges = [0, 1, 2, 100, 200, 290, 301]
    want = [sum(1 for v in vals if (edges[b] <= v < edges[b + 1]) or (b == len(edges) - 2 and v == edges[-1])) for b in range(len(edges) - 1)]
    chk.case(nontrivial_key="long-strings")
    if real != ("ok", want):
        chk.violation("C05|pcDelta|long-strings", f"pcDelta on sequences of length 300 = {real}, expected {want} (distances above 255)", {"lengths": [len(x) for x in longs]})
    real2 = core.call_real(lambda: [int(v) for v in ds.pcDelta(longs[:2], longs[2:], bins=edges, normalize=False)])
    vals2 = [levd0(a, b_) for a in longs[:2] for b_ in longs[2:]]
    want2 = [sum(1 for v in vals2 if (edges[b] <= v < edges[b + 1]) or (b == len(edges) - 2 and v == edges[-1])) for b in range(len(edges) - 1)]
    if real2 != ("ok", want2):
        chk.violation("C05|pcDelta|long-strings-cross", f"pcDelta cross on long sequences = {real2}, expected {want2}", {})
    # bins = 0 -> pc of the same arguments
    for _ in range(15):
        xs = gen.sub_collection(rng, pool[:8], rng.randint(2, 12))
        ys = gen.sub_collection(rng, pool[:8], rng.randint(1, 8)) if rng.random() < 0.5 else None
        r1 = core.call_real(lambda: float(ds.pcDelta(xs, ys, bins=0)))
        r2 = core.call_real(lambda: float(st.pc(xs, ys)))
        chk.case(nontrivial_key=("bins0", tuple(xs), tuple(ys or [])))
        if r1 != r2 or r1[0] != "ok":
            chk.violation("C05|pcDelta|bins=0", f"pcDelta(bins=0) = {r1} differs from pc = {r2}", {"xs": xs, "xs2": ys})

    # bins = 0 is pc OF THE SAME ARGUMENTS also for tables with further columns (rows coincide when ALL columns agree), for metrics
    # under which distinct elements are at distance 0, and whatever maxseqs says
    import pandas as _pd0
    t0 = _pd0.DataFrame({"TRBV": ["TRBV1", "TRBV2", "TRBV1", "TRBV3", "TRBV1"], "CDR3B": ["CASSF", "CASSF", "CASSF", "CASSL", "CASSF"]})
    zero_metric = lambda a_, b_: 0  # noqa: E731
    for label0, r1_, r2_ in (("table-with-V-column", lambda: float(ds.pcDelta(t0, bins=0)), lambda: float(st.pc(t0))),
                             ("table-with-V-column-cross", lambda: float(ds.pcDelta(t0, t0.iloc[:3], bins=0)), lambda: float(st.pc(t0, t0.iloc[:3]))),
                             ("maxseqs", lambda: float(ds.pcDelta(["CA", "CA", "CB", "CC", "CA", "CB"], bins=0, maxseqs=3)),
                              lambda: float(st.pc(["CA", "CA", "CB", "CC", "CA", "CB"])))):
        r1, r2 = core.call_real(r1_), core.call_real(r2_)
        chk.case(nontrivial_key=("bins0", label0))
        if r1 != r2 or r1[0] != "ok":
            chk.violation(f"C05|pcDelta|bins=0|{label0}", f"pcDelta(bins=0) = {r1} differs from pc of the same arguments = {r2} ({label0})", {"case": label0})
    ans = core.run_driver_parallel(ops)
    for (kind, meta, real, _), a, op in zip(checks, ans, ops):
        if a[0] != "ok":
            chk.model_error(f"driver error {a} on {str(op)[:200]}")
            continue
        nt = kind == "counts" and real[0] == "ok" and any(real[1])
        chk.case(sample={"kind": kind, **{k: v for k, v in meta.items() if len(str(v)) < 150}} if chk.evaluations % 40 == 0 else None,
                 nontrivial_key=(kind, json.dumps(meta, sort_keys=True)[:800]) if nt or kind == "norm" else None)
        chk.count(f"pcDelta:{kind}:{meta['metric']}:{'two' if meta['xs2'] else 'one'}")
        if kind == "counts":
            if real != ("ok", a[1]):
                sig = f"C05|pcDelta|counts|{'two' if meta['xs2'] else 'one'}|" + (f"raises-{real[1]}" if real[0] == "error" else "differs")
                chk.violation(sig, f"pcDelta(normalize=False) = {str(real)[:120]} but the pair histogram is {a[1]}",
                              {**meta, "real": str(real), "model": a[1]})
        else:
            if a[1] is None:      # all counts zero and no pseudocount: NumPy gives nan
                ok = real[0] == "ok" and all(np.isnan(v) for v in real[1])
            else:
                want = [float(Fraction(v)) for v in a[1]]
                ok = real[0] == "ok" and len(real[1]) == len(want) and all(abs(x - y) <= 1e-12 for x, y in zip(real[1], want))
            if not ok:
                chk.violation(f"C05|pcDelta|normalised|pseudocount={'0' if not meta['pseudocount'] else 'c'}",
                              f"pcDelta(normalize=True, pseudocount={meta['pseudocount']}) = {str(real)[:120]} != (count + c)/(total + 2c)",
                              {**meta, "real": str(real), "model": a[1]})

    # ---- TCR tables: default metric by columns, and pcDelta on tables
    rows = [("CAVR", "TRAV1-1*01", "CASSL", "TRBV2*01"), ("CAVK", "TRAV1-1*01", "CASSQ", "TRBV2*01"),
            ("CAVR", "TRAV1-2*01", "CASSLL", "TRBV3-1*01"), ("CAV", "TRAV1-1*01", "CASSL", "TRBV2*01")]
    full = pd.DataFrame(rows, columns=["CDR3A", "TRAV", "CDR3B", "TRBV"], index=[7, 3, 9, 1])
    # (the metric follows the columns PRESENT, in whatever order the table stores them)
    tabs = [("both", full, Cdr3Levenshtein, True, True), ("alpha", full[["CDR3A", "TRAV"]], AlphaCdr3Levenshtein, True, False),
            ("beta", full[["CDR3B", "TRBV"]], BetaCdr3Levenshtein, False, True),
            ("both-beta-first", full[["TRBV", "CDR3B", "TRAV", "CDR3A"]], Cdr3Levenshtein, True, True),
            ("both-extra-columns", full.assign(note="x")[["note", "CDR3B", "CDR3A"]], Cdr3Levenshtein, True, True),
            ("none", full[["TRAV", "TRBV"]], Levenshtein, False, False)]
    dops = []
    for name, df, cls, ha, hb in tabs:
        got = type(ds.get_default_metric_for_input_data(df)).__name__
        dops.append(({"op": "default_metric", "isTable": True, "hasA": ha, "hasB": hb}, got, name))
    dops.append(({"op": "default_metric", "isTable": False, "hasA": False, "hasB": False},
                 type(ds.get_default_metric_for_input_data(["CA"])).__name__, "list"))
    dops.append(({"op": "default_metric", "isTable": False, "hasA": True, "hasB": True},
                 type(ds.get_default_metric_for_input_data(pd.Series(["CA"]))).__name__, "series"))
    for (op, got, name), a in zip(dops, core.run_driver([d[0] for d in dops])):
        chk.case(nontrivial_key=("default-metric", name))
        if a != ("ok", got):
            chk.violation(f"C05|default-metric|{name}", f"default metric for input kind '{name}' is {got}, the decision table says {a}", {"kind": name})
    for name, df, cls, ha, hb in tabs[:5]:
        real = core.call_real(lambda: [int(v) for v in ds.pcDelta(df, bins=list(range(0, 8)), normalize=False)])
        via = core.call_real(lambda: [int(v) for v in np.histogram(cls().calc_pdist_vector(df), bins=list(range(0, 8)))[0]])
        # specification: sum of chain Levenshtein distances of the CDR3 columns present
        from Levenshtein import distance as levd
        cols = [c for c in ("CDR3A", "CDR3B") if c in df.columns]
        vals = [sum(levd(df.iloc[i][c], df.iloc[j][c]) for c in cols) for i in range(len(df)) for j in range(i + 1, len(df))]
        want = [sum(1 for v in vals if (b <= v < b + 1) or (b == 6 and v == 7)) for b in range(7)]
        chk.case(nontrivial_key=("table", name))
        if real != ("ok", want) or via != ("ok", want):
            chk.violation(f"C05|pcDelta|table-{name}", f"pcDelta on a TCR table ({name}) = {real}, expected {want}", {"table": name})
    # paired chains whose residues slide across the pair (the paired distance is the SUM of the chain distances), default metric and
    # explicitly weighted paired metrics
    from Levenshtein import distance as levd2
    slide = pd.DataFrame({"CDR3A": ["CAVF", "CAV", "CAVRDGNT", "CAVRD", "CAAF"], "CDR3B": ["CASF", "FCASF", "CASSLGF", "GNTCASSLGF", "CASF"]}, index=[4, 8, 1, 5, 2])
    for label_s, metric_s, wa_, wb_ in (("default", None, 1, 1), ("alpha_weight=3", Cdr3Levenshtein(alpha_weight=3), 3, 1),
                                        ("beta_weight=2", Cdr3Levenshtein(beta_weight=2), 1, 2), ("positional (1,1,1,2,5)", Cdr3Levenshtein(1, 1, 1, 2, 5), 2, 5)):
        kw_s = {} if metric_s is None else {"metric": metric_s}
        real = core.call_real(lambda: [int(v) for v in ds.pcDelta(slide, bins=list(range(0, 60)), normalize=False, **kw_s)])
        vals_s = [wa_ * levd2(slide.iloc[i]["CDR3A"], slide.iloc[j]["CDR3A"]) + wb_ * levd2(slide.iloc[i]["CDR3B"], slide.iloc[j]["CDR3B"])
                  for i in range(len(slide)) for j in range(i + 1, len(slide))]
        want_s = [sum(1 for v in vals_s if (b_ <= v < b_ + 1) or (b_ == 58 and v == 59)) for b_ in range(59)]
        chk.case(nontrivial_key=("table-sliding", label_s))
        if real != ("ok", want_s):
            chk.violation(f"C05|pcDelta|paired-sliding-{label_s}", f"pcDelta on a paired table ({label_s}) = {str(real)[:200]}, the weighted sum of the chain distances gives "
                          f"{[i for i, v in enumerate(want_s) if v]} (non-empty bins)", {"CDR3A": list(slide["CDR3A"]), "CDR3B": list(slide["CDR3B"]), "metric": label_s})
    # tuple legacy input
    real = core.call_real(lambda: [int(v) for v in ds.pcDelta((list(full["CDR3A"]), list(full["CDR3B"])), bins=list(range(0, 8)), normalize=False)])
    via = core.call_real(lambda: [int(v) for v in ds.pcDelta(full, bins=list(range(0, 8)), normalize=False)])
    if real != via:
        chk.violation("C05|pcDelta|tuple-input", f"legacy (alpha, beta) tuple input {real} differs from the table form {via}", {})

    # ---- maxseqs: result = pcDelta of a random sub-sample of exactly min(N, maxseqs) elements
    for _ in range(20 if not thorough else 200):
        N = rng.randint(2, 25)
        xs = gen.sub_collection(rng, pool[:20], N)
        m = rng.choice([2, 3, 5, N, N + 2, max(2, N - 1)])
        seed = rng.randrange(2 ** 31)
        np.random.seed(seed)
        sub = core.call_real(lambda: list(ds.downsample(xs, m)))
        np.random.seed(seed)
        real = core.call_real(lambda: [int(v) for v in ds.pcDelta(xs, bins=list(range(0, 10)), normalize=False, maxseqs=m)])
        chk.case(nontrivial_key=("maxseqs", tuple(xs), m))
        chk.count("pcDelta:maxseqs")
        if sub[0] != "ok" or real[0] != "ok":
            chk.violation("C05|pcDelta|maxseqs|raises", f"pcDelta(maxseqs={m}) raised: {sub} {real}", {"xs": xs, "m": m})
            continue
        co, cx = Counter(sub[1]), Counter(xs)
        if len(sub[1]) != min(N, m) or any(co[v] > cx[v] for v in co):
            chk.violation("C05|downsample|contract", f"downsample({N} elements, {m}) returned {len(sub[1])} elements / not a sub-multiset",
                          {"xs": xs, "m": m, "sub": sub[1]})
        want = core.call_real(lambda: [int(v) for v in ds.pcDelta(sub[1], bins=list(range(0, 10)), normalize=False)])
        if sum(real[1]) != min(N, m) * (min(N, m) - 1) // 2 or real != want:
            chk.violation("C05|pcDelta|maxseqs|differs", f"pcDelta(maxseqs={m}) is not the histogram of a sub-sample of {min(N, m)} elements",
                          {"xs": xs, "m": m, "real": real[1], "of_subsample": want})
    # two collections with maxseqs: BOTH are reduced to at most maxseqs elements, whatever the size of the other one
    for _ in range(12 if not thorough else 100):
        n1, n2 = rng.choice([(3, 12), (12, 3), (10, 11), (2, 9), (4, 4)])
        xs = gen.sub_collection(rng, pool[:20], n1)
        ys = gen.sub_collection(rng, pool[:20], n2)
        m = rng.choice([2, 3, 5, 6])
        np.random.seed(rng.randrange(2 ** 31))
        real = core.call_real(lambda: [int(v) for v in ds.pcDelta(xs, ys, bins=list(range(0, 12)), normalize=False, maxseqs=m)])
        chk.case(nontrivial_key=("maxseqs2", tuple(xs), tuple(ys), m))
        chk.count("pcDelta:maxseqs-two-collections")
        want_pairs = min(n1, m) * min(n2, m)
        if real[0] != "ok" or sum(real[1]) != want_pairs:
            chk.violation("C05|pcDelta|maxseqs-two|pair-count", f"pcDelta(seqs ({n1}), seqs2 ({n2}), maxseqs={m}) counts {real} cross pairs in total, "
                          f"expected min({n1},{m}) * min({n2},{m}) = {want_pairs}", {"xs": xs, "ys": ys, "m": m, "real": str(real)})
    # the paired-chain TUPLE form (alphas, betas) with maxseqs: the sub-sample is of ROWS (pairs), min(N, maxseqs) of them
    for _ in range(6 if not thorough else 40):
        n1 = rng.choice([6, 9, 10])
        al = gen.sub_collection(rng, pool[:20], n1)
        be = gen.sub_collection(rng, pool[:20], n1)
        m = rng.choice([2, 3, 4])
        np.random.seed(rng.randrange(2 ** 31))
        real = core.call_real(lambda: [int(v) for v in ds.pcDelta((al, be), bins=list(range(0, 30)), normalize=False, maxseqs=m)])
        chk.case(nontrivial_key=("maxseqs-tuple", tuple(al), tuple(be), m))
        chk.count("pcDelta:maxseqs-tuple-form")
        if real[0] != "ok" or sum(real[1]) != m * (m - 1) // 2:
            chk.violation("C05|pcDelta|maxseqs-tuple|pair-count", f"pcDelta((alphas, betas) of {n1} pairs, maxseqs={m}) counts {real} pairs in total, "
                          f"expected {m}*({m}-1)/2 = {m * (m - 1) // 2}", {"alphas": al, "betas": be, "m": m, "real": str(real)})
    # ---- background table bins
    # history: editing the returned bins must not change what a later call returns
    first = core.call_real(lambda: ds.load_pcDelta_background())
    if first[0] == "ok":
        try:
            first[1][1][-1] = 1000
            first[1][1][0] = -5
            first[1][0].iloc[0, 0] = 123.0
        except Exception:  # noqa
            pass
    nb = core.call_real(lambda: ds.load_pcDelta_background(return_bins=False))
    back = core.call_real(lambda: ds.load_pcDelta_background())
    if nb[0] != "ok" or back[0] != "ok" or not nb[1].equals(back[1][0]):
        chk.violation("C05|load_pcDelta_background|return_bins", "load_pcDelta_background(return_bins=False) is not the table returned with the bins", {})
    chk.case(nontrivial_key="background")
    if back[0] != "ok":
        chk.violation("C05|load_pcDelta_background|raises", f"load_pcDelta_background raised {back[1]}", {})
    else:
        tab, bins = back[1]
        a = core.run_driver([{"op": "background_bins", "index": [int(i) for i in tab.index]}])[0]
        ok = [int(b) for b in bins] == a[1] == list(range(len(tab) + 1))
        out = core.call_real(lambda: ds.pcDelta(["CASSL", "CASSQ", "CAS"], bins=bins))
        if not ok or out[0] != "ok" or len(out[1]) != len(tab):
            chk.violation("C05|load_pcDelta_background|bins", "background bins are not the consecutive integers 0..n / pcDelta output "
                          "does not align row by row with the table", {"bins": [int(b) for b in bins], "rows": len(tab)})


def replay(path):
    r = json.load(open(path))
    print(json.dumps(r, indent=1)[:3000])
    return 0
