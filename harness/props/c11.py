"""C11 — kdtree results are independent of worker count, chunking and compression; max_returns contract."""
import json
import multiprocessing.pool

from harness import core, gen, search
from harness.gen import AA

TRUSTED = [
    "Lean 4.33.0 kernel; axioms propext, Classical.choice, Quot.sound only (audited per theorem)",
    "multiprocessing.Pool.map(chunksize) is modelled by an abstract pool (tasks = consecutive chunks, any completion order, "
    "result = concatenation in task order); pickling, fork inheritance of the module-level parameter block and OS scheduling are "
    "exercised by real forked runs, not modelled",
    "rapidfuzz process.extract(limit=m) is modelled by the relation IsLimit (ties unspecified), evaluated tie-insensitively",
    "SciPy KDTree ball query modelled by the integer predicate (see C04)",
]


def limit_contract(real, spec, m):
    """per query: min(m, #true) reported, all true with exact distances, none omitted strictly closer"""
    by_q_real, by_q_spec = {}, {}
    for (i, j, d) in real:
        by_q_real.setdefault(i, []).append((j, d))
    for (i, j, d) in spec:
        by_q_spec.setdefault(i, []).append((j, d))
    for i in set(by_q_real) | set(by_q_spec):
        R, T = by_q_real.get(i, []), by_q_spec.get(i, [])
        if len(R) != min(m, len(T)):
            return f"query {i}: {len(R)} reported, expected min({m}, {len(T)})"
        if len(set(R)) != len(R):
            return f"query {i}: repeated neighbour"
        if not set(R) <= set(T):
            return f"query {i}: reported {sorted(set(R) - set(T))} is not a true neighbour / wrong distance"
        omitted = set(T) - set(R)
        if R and omitted:
            worst = max(core.frac(d) for _, d in R)
            best_omitted = min(core.frac(d) for _, d in omitted)
            if best_omitted < worst:
                return f"query {i}: omitted neighbour at {best_omitted} is strictly closer than reported {worst}"
    return None


def run(chk):
    nn = search.nn()
    chk.trusted_base = TRUSTED
    chk.assumptions = ["fork start method (Linux)", "Python run without -O"]
    chk.rule = ("kdtree over list sizes 1..40 x n_cpu 1..16 (n_cpu > len(seqs), chunk sizes not dividing the list) x compression "
                "{1,2,3,4,5,7,10,19,20,25} x max_returns {None,1,2,3,5} x mode {default, hamming, custom}; each real run forks a real "
                "pool (one schedule); every-schedule independence is the theorem C11_any_schedule; non-trivial = distinct "
                "configuration whose result has >= 1 pair")
    chk.build_and_audit()
    rng = chk.rng
    thorough = chk.tier == "thorough"

    # ---- internal: CPython's chunking ~ chunks
    ops, reals = [], []
    for n in list(range(0, 12)) + [17, 40]:
        for c in (1, 2, 3, 5, 7, 16):
            xs = list(range(n))
            ops.append({"op": "chunks", "c": c, "xs": xs})
            reals.append([list(t[1]) for t in multiprocessing.pool.Pool._get_tasks(None, xs, c)])
    ans = core.run_driver(ops)
    chk.count("corr:Pool._get_tasks~chunks", len(ops))
    chk.evaluations += len(ops)
    for o, r, a in zip(ops, reals, ans):
        if a != ("ok", r):
            chk.broken_obligations.append(f"corr:Pool._get_tasks~chunks differs on {o}: real={r} model={a}")
            break
    # model sanity: any schedule gives the serial map (the theorem quantifies over all schedules)
    ops = []
    for _ in range(40):
        n, c = rng.randint(0, 12), rng.randint(1, 5)
        ntasks = (n + c - 1) // c
        sched = list(range(ntasks)) + [rng.randrange(0, ntasks + 2) for _ in range(3)]
        rng.shuffle(sched)
        ops.append({"op": "pool_map", "xs": list(range(n)), "c": c, "sched": sched})
    for o, a in zip(ops, core.run_driver(ops)):
        if a != ("ok", [x + 1 for x in o["xs"]]):
            chk.broken_obligations.append(f"model poolMap differs from the serial map on {o}: {a}")
            break

    dist_len = lambda a, b: abs(len(a) - len(b))  # noqa
    from Levenshtein import distance as levd
    dist_lev2 = lambda a, b: 2 * levd(a, b)  # noqa
    # a real-valued distance (halves and quarters): the values must survive the trip through the worker processes
    dist_half = lambda a, b: levd(a, b) / 2 + 0.25 * abs(len(a) - len(b))  # noqa
    from collections import Counter as _Counter
    # letter-composition distance: anagrams are at distance 0 although many edits apart (order disagrees with Levenshtein)
    dist_comp = lambda a, b: sum(((_Counter(a) - _Counter(b)) + (_Counter(b) - _Counter(a))).values())  # noqa
    pool3 = gen.all_strings("ACD", 3)
    configs = []
    sizes = [1, 2, 3, 5, 8, 13, 21, 40]
    n_runs = 70 if not thorough else 600
    for _ in range(n_runs):
        n = rng.choice(sizes)
        xs = gen.sub_collection(rng, pool3, n) if rng.random() < 0.6 else gen.repertoire(rng, n, minlen=5, maxlen=9, allow_empty=False)
        n_cpu = rng.choice([1, 2, 3, 4, 7, 16, n + 1, n + 3])
        comp = rng.choice([1, 2, 3, 4, 5, 7, 10, 19, 20, 25])
        mr = rng.choice([None, None, 1, 2, 3, 5])
        mode = rng.choice(["lev", "lev", "ham", "custom", "custom-comp", "custom-half"])
        k = rng.choice([1, 2, 3])
        configs.append((xs, n_cpu, comp, mr, mode, k))
    for ncpu_ in (2, 3):
        configs.append((gen.repertoire(rng, 17, minlen=5, maxlen=8, allow_empty=False), ncpu_, 1, None, "custom-half", 2))
    # (list size, worker count) pairs for which size / n_cpu * n_cpu falls just short of size in doubles: one-substitution families,
    # so that the LAST sequence has neighbours
    for n_, ncpu_ in ((15, 11), (15, 13), (30, 13), (49, 11), (61, 7), (61, 14)):
        root_ = gen.repertoire(rng, 1, minlen=7, maxlen=7, allow_empty=False)[0]
        fam_ = [root_] + [root_[:i_ % 7] + AA[(i_ * 3) % 20] + root_[i_ % 7 + 1:] for i_ in range(n_ - 2)] + [root_]
        configs.append((fam_, ncpu_, 1, None, "lev" if n_ != 30 else "ham", 1))
    # anagram families: close in composition, far in edits (max_returns must count TRUE neighbours only)
    for mr in (1, 2, 3):
        configs.append((["SACSD", "CASSD", "CASSE", "CASD", "ACSSD", "CASSD"], rng.choice([1, 3]), rng.choice([1, 4]), mr, "custom-comp", 1))
        configs.append((["ACD", "CAD", "DCA", "ACE", "AC", "ADC", "ACDD"], 1, 1, mr, "custom-comp", 1))
    # long sequences: per-bin letter counts beyond 255, every compression
    base = "".join(rng.choice(AA) for _ in range(255))
    longs = [base, base + "A", base[:-1], base[:100] + "C" + base[100:], "A" * 256, "A" * 257, "A" * 255]
    for comp in (1, 19, 20, 25):
        configs.append((longs, rng.choice([1, 2]), comp, None, "lev", 1))
    # larger lists (a remainder for every worker count; >= 64 sequences per worker)
    big = gen.repertoire(rng, 203 if not thorough else 1031, minlen=5, maxlen=8, allow_empty=False)
    for ncpu in ((2, 3) if not thorough else (2, 3, 7, 16)):
        configs.append((big, ncpu, 1, None, "lev", 1))
    configs.append((big[:131], 2, 2, 2, "ham", 1))
    # more than 257 sequences (positions beyond the small integers CPython shares): no position is its own neighbour, with and
    # without max_returns, serial and parallel
    big2 = gen.repertoire(rng, 331 if not thorough else 1500, minlen=5, maxlen=7, allow_empty=False)
    configs.append((big2, 1, 1, None, "lev", 1))
    configs.append((big2, 2, 2, 2, "lev", 1))
    configs.append((sorted(big2, key=len), 1, 1, 1, "ham", 1))
    # boundary of the candidate ball: pairs that differ by exactly k substitutions of one letter by one other letter sit at
    # squared composition distance 2k^2 = (sqrt(2) k)^2, for every k, mode and (bin-separating) compression
    for k in (1, 2, 3, 4, 5, 6, 7):
        x, y = rng.sample("ADGKW", 2)
        fam = ["CASS" + x * k + "F", "CASS" + y * k + "F", "CASS" + x * (k - 1) + y + "F", x * k, y * k, "CASS" + x * k + y + "F"]
        for comp in (1, 2):
            configs.append((fam, rng.choice([1, 2]), comp, None, rng.choice(["lev", "ham"]), k))
    # one length class with frame-shifted pairs in Hamming mode (equal length does not make Hamming = Levenshtein), k >= 2
    for _ in range(4 if not thorough else 30):
        L = rng.randint(5, 8)
        root = "".join(rng.choice("ACDQS") for _ in range(L))
        fam = [root, root[1:] + rng.choice("ACD"), rng.choice("ACD") + root[:-1], root[:2] + root[3:] + "F", gen.mutate(rng, root, "ACDQS", 1) or root]
        fam = [x for x in fam if len(x) == L] + ["".join(rng.choice("ACDQS") for _ in range(L)) for _ in range(2)]
        configs.append((fam, rng.choice([1, 2, 3]), rng.choice([1, 2, 5]), rng.choice([None, None, 2]), "ham", rng.choice([2, 3])))
    # a walk through compressions on overlapping lists in one process (several compressions share a vector length but not the
    # residue-to-bin map): nothing computed for one compression may be reused for another
    walk_base = gen.repertoire(rng, 8, minlen=5, maxlen=7, allow_empty=False)
    for comp in (5, 6, 7, 8, 9, 10, 13, 19, 20, 4, 3, 2, 1):
        fresh = [gen.mutate(rng, rng.choice(walk_base), AA, 1) or "C" for _ in range(4)]
        configs.append((rng.sample(walk_base, 6) + fresh + ["CGGGG", "CGGGA", "CAAAY", "CAAAW"][: rng.randint(2, 4)], 1, comp, None, "lev", 1))
    # the corner the property names explicitly
    configs.append((["CAAA", "CADA", "CAAK"], 4, 1, None, "lev", 1))
    configs.append((["CAAA"], 16, 2, None, "lev", 1))

    ops = []
    for xs, n_cpu, comp, mr, mode, k in configs:
        if mode == "custom":
            ops.append({"op": "brute_self", "xs": xs, **search.score_fields("custom", k, xs, dist_lev2, 4)})
        elif mode == "custom-comp":
            ops.append({"op": "brute_self", "xs": xs, **search.score_fields("custom", k, xs, dist_comp, 3)})
        elif mode == "custom-half":
            ops.append({"op": "brute_self", "xs": xs, **search.score_fields("custom", k, xs, dist_half, 1.5)})
        else:
            ops.append({"op": "brute_self", "xs": xs, "k": k, "mode": mode})
    specs = core.run_driver_parallel(ops)
    recent = []
    for (xs, n_cpu, comp, mr, mode, k), sp in zip(configs, specs):
        kw = dict(max_edits=k, n_cpu=n_cpu, compression=comp, max_returns=mr)
        if mode == "ham":
            kw["custom_distance"] = "hamming"
        elif mode == "custom":
            kw["custom_distance"] = dist_lev2
            kw["max_custom_distance"] = 4
        elif mode == "custom-comp":
            kw["custom_distance"] = dist_comp
            kw["max_custom_distance"] = 3
        elif mode == "custom-half":
            kw["custom_distance"] = dist_half
            kw["max_custom_distance"] = 1.5
        st, val = core.call_real(lambda: nn.kdtree(xs, **kw))
        spec = core.canon_model_trips(sp[1])
        # (the calls made just before, in the same process: a replay that holds alone is re-run after them)
        meta = {"xs": xs, "n_cpu": n_cpu, "compression": comp, "max_returns": mr, "mode": mode, "k": k, "preceding_calls": list(recent[-3:])}
        if mode in ("lev", "ham") and len(xs) <= 40:
            recent.append({"xs": xs, "n_cpu": n_cpu, "compression": comp, "max_returns": mr, "mode": mode, "k": k})
        chk.case(sample={k_: v for k_, v in meta.items() if k_ != "preceding_calls"} if len(chk.samples) < 5 else None,
                 nontrivial_key=json.dumps(meta, sort_keys=True) if spec else None)
        chk.count(f"n_cpu{'>len' if n_cpu > len(xs) else ('=1' if n_cpu == 1 else '>1')}")
        chk.count(f"max_returns={mr}")
        chk.count(f"mode={mode}")
        if st != "ok":
            sig = f"C11|kdtree|raises-{val}"
            chk.violation(sig, f"kdtree raised {val} for n_cpu={n_cpu}, len(seqs)={len(xs)}, compression={comp}, max_returns={mr}, mode={mode}", meta)
            continue
        real = core.canon_trips(val)
        if mr is None:
            if real != spec:
                chk.violation(search.sig_of("C11", f"kdtree[{'parallel' if n_cpu > 1 else 'serial'}]", ("ok", real), ("ok", spec)),
                              f"kdtree(n_cpu={n_cpu}, compression={comp}, mode={mode}) differs from the single-process uncompressed result",
                              {**meta, "real": str(real)[:2000], "spec": str(spec)[:2000]})
        else:
            why = limit_contract(real, spec, mr)
            if why:
                chk.violation(f"C11|kdtree|max_returns|{why.split(':')[1].strip().split(' ')[0]}",
                              f"kdtree(max_returns={mr}, n_cpu={n_cpu}, mode={mode}) breaks the max_returns contract: {why}",
                              {**meta, "real": str(real)[:2000], "spec": str(spec)[:2000], "why": why})
    # history: the module-level parameter block must be rewritten by every call (workers inherit it on fork)
    a = ["CAAA", "CADA", "CAAK", "CDDD"]
    b = ["AC", "AD", "ACD", "A", "C", "ACC"]
    r1 = core.call_real(lambda: core.canon_trips(nn.kdtree(a, max_edits=1, n_cpu=2)))
    r2 = core.call_real(lambda: core.canon_trips(nn.kdtree(b, max_edits=2, n_cpu=3, custom_distance="hamming")))
    r3 = core.call_real(lambda: core.canon_trips(nn.kdtree(a, max_edits=1, n_cpu=2)))
    s2 = core.canon_model_trips(core.run_driver([{"op": "brute_self", "xs": b, "k": 2, "mode": "ham"}])[0][1])
    chk.case(nontrivial_key="params-fresh")
    if r2[0] == "error" or r1[0] == "error":
        chk.violation(f"C11|kdtree|raises-{r2[1] if r2[0] == 'error' else r1[1]}", "kdtree raised in a parallel run (consecutive-call history)",
                      {"r1": str(r1), "r2": str(r2), "xs": b, "n_cpu": 3, "mode": "ham", "k": 2})
    elif r1 != r3 or r2 != ("ok", s2):
        chk.violation("C11|kdtree|stale-params", "kdtree workers used a stale parameter block across consecutive calls",
                      {"r1": str(r1), "r2": str(r2), "r3": str(r3), "spec2": str(s2)})


def replay(path):
    nn = search.nn()
    r = json.load(open(path))
    print(json.dumps(r, indent=1)[:3000])
    if "xs" in r and "n_cpu" in r:
        kw = dict(max_edits=r["k"], n_cpu=r["n_cpu"], compression=r["compression"], max_returns=r["max_returns"])
        if r["mode"] == "ham":
            kw["custom_distance"] = "hamming"
        if r["mode"] == "custom":
            print("(custom mode: replay through ./check C11)")
            return 0
        for pc in r.get("preceding_calls", []):
            pkw = dict(max_edits=pc["k"], n_cpu=pc["n_cpu"], compression=pc["compression"], max_returns=pc["max_returns"])
            if pc["mode"] == "ham":
                pkw["custom_distance"] = "hamming"
            core.call_real(lambda: nn.kdtree(pc["xs"], **pkw))
        real = core.call_real(lambda: core.canon_trips(nn.kdtree(r["xs"], **kw)))
        base = core.canon_model_trips(core.run_driver([{"op": "brute_self", "xs": r["xs"], "k": r["k"], "mode": r["mode"]}])[0][1])
        base = ("ok", base)
        print("real    :", str(real)[:500])
        print("baseline:", str(base)[:500])
        ok = real == base and real[0] == "ok"
        print("verdict:", "holds" if ok or r["max_returns"] is not None else "VIOLATES")
        return 0 if ok else 1
    return 0
