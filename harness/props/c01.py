"""C01 — default neighbour search (nearest_neighbor / symdel) is exact."""
import json

from harness import core, gen, search

TRUSTED = [
    "Lean 4.33.0 kernel; axioms propext, Classical.choice, Quot.sound only (audited per theorem)",
    "rapidfuzz Levenshtein.distance is modelled by the recursive specification `lev` (validated against `levDP` on every run)",
    "correspondence check (this harness + compiled Lean driver): differential, bounded by its generators",
    "model functions delVariants/buildIndex/symdelSelf are extensional renderings of _comb_gen/SymdelDB.__init__/symdel loops, tied by the comb_gen, symdel_index and symdel_self operations",
]


def shrink(xs, k, real_fn):
    """minimise a failing input list against the brute-force specification"""
    def fails(cand):
        st, val = core.call_real(real_fn, cand, k)
        sp = core.run_driver([{"op": "brute_self", "xs": cand, "k": k, "mode": "lev"}])[0]
        if st != "ok":
            return True
        return core.canon_trips(val) != core.canon_model_trips(sp[1])
    xs = core.shrink_list(xs, fails)
    xs = core.shrink_strings(xs, fails)
    return xs


def run_history(nn, pre, xs, k):
    """other searches first (a prelude call that raises is part of the history), then the measured self-search"""
    for kind, other, kk, comp in pre:
        try:
            if kind == "two-q":
                nn.symdel(other, max_edits=kk, seqs2=xs)
            elif kind == "two-r":
                nn.symdel(xs, max_edits=kk, seqs2=other)
            elif kind == "db":
                nn.SymdelDB(other, max_edits=kk).lookup(xs, max_edits=kk)
            elif kind == "self":
                nn.symdel(other, max_edits=kk)
            elif kind == "ham":
                nn.symdel(xs + other, max_edits=kk, custom_distance="hamming")
            elif kind == "hash":
                nn.hash_based([x for x in xs + other if set(x) <= set(gen.AA)], max_edits=min(kk, 2))
            elif kind == "kd":
                nn.kdtree([x for x in xs + other if set(x) <= set(gen.AA)], max_edits=kk, compression=comp)
        except Exception:  # noqa
            pass
    return nn.symdel(xs, max_edits=k)


def edited_search(kind, xs0, pos, new, k, fn):
    """search a container, set one position in place, search the same object again"""
    import numpy as _np
    import pandas as _pd
    obj = list(xs0) if kind == "list" else (_np.array(xs0, dtype=object) if kind == "ndarray" else _pd.Series(xs0, index=range(5, 5 + len(xs0))))
    try:
        fn(obj, k)
    except Exception:  # noqa
        pass
    if kind == "series":
        obj.iloc[pos] = new
    else:
        obj[pos] = new
    return fn(obj, k)


def run(chk):
    nn = search.nn()
    chk.trusted_base = TRUSTED
    chk.assumptions = ["strings are compared as sequences of Unicode code points",
                       "Python run without -O"]
    chk.rule = ("exhaustive: every string up to a length bound over 2-3 letter alphabets, all in one call and "
                "in random sub-collections with repetition, k=1..3; random CDR3-like clonal repertoires; "
                "non-trivial = distinct input whose result has at least one neighbour pair")
    chk.build_and_audit()
    rng = chk.rng
    thorough = chk.tier == "thorough"

    # ---- internal correspondence 1: _comb_gen ~ delVariants (as sets)
    pools = search.exhaustive_pools(chk.tier)
    strs = sorted(set(s for _a, p in pools for s in p)) + ["AAAAAA", "ABABAB", "CASSLGQAYEQYF", "ü∆A∆"]
    ops, reals = [], []
    for s in strs:
        for k in (1, 2, 3, 4):
            if len(s) > 8 and k > 2:
                continue
            ops.append({"op": "comb_gen", "s": s, "k": k})
            reals.append(core.call_real(lambda s=s, k=k: sorted(nn._comb_gen(s, k))))
    ans = core.run_driver_parallel(ops)
    bad = [(o, r, a) for o, r, a in zip(ops, reals, ans) if r[0] != "ok" or a[0] != "ok" or r[1] != sorted(a[1])]
    chk.count("corr:_comb_gen", len(ops))
    chk.evaluations += len(ops)
    if bad:
        o, r, a = bad[0]
        chk.broken_obligations.append(f"corr:_comb_gen~delVariants differs on {json.dumps(o)}: real={str(r)[:200]} model={str(a)[:200]}")

    # ---- internal correspondence 2: SymdelDB.variant_dict ~ buildIndex
    ops, reals = [], []
    for _ in range(40 if not thorough else 200):
        alpha, pool = rng.choice(pools)
        xs = gen.sub_collection(rng, pool, rng.randint(1, 8))
        k = rng.randint(1, 3)
        ops.append({"op": "symdel_index", "xs": xs, "k": k})
        reals.append(core.call_real(lambda xs=xs, k=k: sorted((key, list(v)) for key, v in nn.SymdelDB(xs, k).variant_dict.items())))
    ans = core.run_driver_parallel(ops)
    chk.count("corr:variant_dict", len(ops))
    chk.evaluations += len(ops)
    for o, r, a in zip(ops, reals, ans):
        if r[0] != "ok" or a[0] != "ok" or r[1] != sorted((k_, v) for k_, v in a[1]):
            chk.broken_obligations.append(f"corr:SymdelDB.variant_dict~buildIndex differs on {json.dumps(o)}: real={str(r)[:200]} model={str(a)[:200]}")
            break

    # ---- API level
    b = search.Batch(chk, "corr:symdel~symdelSelf")

    def add(label, xs, k, model=True, fn=None, extra=None):
        fn = fn or (lambda xs, k: nn.symdel(xs, max_edits=k))
        mop = {"op": "symdel_self", "xs": xs, "k": k, "mode": "lev"} if model else None
        sop = {"op": "brute_self", "xs": xs, "k": k, "mode": "lev"}
        b.add(label, lambda: fn(xs, k), mop, sop, {"xs": xs, "k": k, "n": len(xs), **(extra or {})})

    nnf = lambda xs, k: nn.nearest_neighbor(xs, max_edits=k)  # noqa
    nnpos = lambda xs, k: nn.nearest_neighbor(xs, k)  # noqa
    # every parameter passed positionally, in the documented order (argument forwarding inside the wrapper)
    nnallpos = lambda xs, k: nn.nearest_neighbor(xs, k, None, 1, None, float("inf"), "triplets", None)  # noqa
    symprog = lambda xs, k: nn.symdel(xs, k, None, 1, None, float("inf"), "triplets", None, True)  # noqa
    # all strings of the exhaustive pools in one call
    for alpha, pool in pools:
        for k in (1, 2, 3):
            add(f"symdel|E({alpha})-all", list(pool), k, model=len(pool) <= 45)
            add(f"nearest_neighbor|E({alpha})-all", list(pool), k, model=False, fn=nnf)
    # corner cases
    corner = [["", ""], [""], ["A"], ["", "A", "AA", "AAA"], ["AB", "B"], ["AB", "BA"], ["AAAA", "AAA", "AA"],
              ["ABC", "CBA", "ABC"], ["A", "B", "C", "D"], ["AB", ""], ["XA", "AY"], ["ü∆", "ü", "∆∆"],
              ["CAAA", "CDDD", "CADA", "CAAA"]]
    # sequences of more than a thousand residues (deeper than Python's default recursion limit): a clonal family of 1200-mers
    long_root = "".join(rng.choice("ACDEFGHIKLMNPQRSTVWY") for _ in range(1200))
    long_fam = [long_root, long_root[:600] + ("A" if long_root[600] != "A" else "C") + long_root[601:], long_root[:-1], long_root + "W",
                long_root[:300] + long_root[301:], "".join(rng.choice("ACDE") for _ in range(1100))]
    add("symdel|1200-residue-family", long_fam, 1, model=False)
    # the documented default radius (max_edits omitted) is 1
    for xs in corner[:8] + [["CASSLGF", "CASSLGY", "CASSLG", "CQSSLGF"]]:
        add("symdel|default-max_edits", xs, 1, model=False, fn=lambda xs, k: nn.symdel(xs))
        add("nearest_neighbor|default-max_edits", xs, 1, model=False, fn=lambda xs, k: nn.nearest_neighbor(xs))
    for xs in corner:
        for k in (1, 2, 3, 5):
            add("symdel|corner", xs, k)
            add("nearest_neighbor|corner", xs, k, model=False, fn=nnpos)
            add("nearest_neighbor-positional|corner", xs, k, model=False, fn=nnallpos)
            add("symdel-progress|corner", xs, k, model=False, fn=symprog)
    # random sub-collections with repetition
    for _ in range(150 if not thorough else 1500):
        alpha, pool = rng.choice(pools)
        xs = gen.sub_collection(rng, pool, rng.randint(1, 14))
        add(f"symdel|E({alpha})-sub", xs, rng.randint(1, 4))
    # clone expansions: few distinct strings, many copies (more positions than distinct deletion variants)
    for _ in range(12 if not thorough else 120):
        base = rng.choice([["CASSF"], ["A"], ["CASSF", "CASSL"], ["AC", "AD", "A"], gen.sub_collection(rng, pools[0][1], 3)])
        xs = [rng.choice(base) for _ in range(rng.choice([6, 8, 15, 30, 60]))]
        add("symdel|clone-expansion", xs, rng.choice([1, 1, 2]), model=len(xs) <= 15)
    # every run: CROWDED deletion-variant buckets (40-60 members) that hold distinct one-substitution variants AND exact copies
    # (pairs at distance 0 and 1 from one bucket), and long clone expansions of 33-70 copies
    from harness.gen import AA as _AA
    for base_, kk in (("CASSLGQAYEQYF", 1), ("CASSLGQAYEQYF", 2), ("CAVF", 1)):
        fam = [base_[:2] + a + base_[3:] for a in _AA]
        add("symdel|crowded-bucket", fam + fam[:15] + [base_] * 5 + [base_[:2] + base_[3:]] * 3, kk, model=False)
    for ncopy in (33, 47, 70):
        add("symdel|clone-expansion", ["CASSF"] * ncopy + ["CASSL"] * 2, 1, model=False)
    # histories: the self-search runs AFTER other searches in the same process that share sequences with it
    # (two-collection queries in both roles, other radii, other engines, other modes): the answer is that of a first call
    def prelude_fn(pre):
        return lambda xs, k: run_history(nn, pre, xs, k)
    for _ in range(40 if not thorough else 400):
        alpha, pool = rng.choice(pools)
        xs = gen.sub_collection(rng, pool, rng.randint(2, 10)) if rng.random() < 0.6 else gen.repertoire(rng, rng.randint(3, 12))
        k = rng.randint(1, 3)
        pre = []
        for _ in range(rng.randint(1, 3)):
            other = gen.sub_collection(rng, pool, rng.randint(1, 6)) if rng.random() < 0.5 else rng.sample(xs, rng.randint(1, len(xs)))
            if rng.random() < 0.5:
                other = other + gen.repertoire(rng, 2)
            pre.append((rng.choice(["two-q", "two-q", "two-r", "db", "self", "ham", "hash", "kd"]), other, rng.choice([k, k, rng.randint(1, 3)]),
                        rng.choice([1, 2, 5])))
        add("symdel|after-history", xs, k, model=False, fn=prelude_fn(pre), extra={"history": [list(h) for h in pre]})
    # the same container object searched, edited IN PLACE (same length), and searched again: the second answer is that of its
    # present content (nothing derived from the object may be kept across calls)
    import numpy as _np
    import pandas as _pd

    for _ in range(12 if not thorough else 100):
        alpha, pool = rng.choice(pools)
        xs0 = gen.sub_collection(rng, pool, rng.randint(3, 9))
        pos = rng.randrange(len(xs0))
        new = rng.choice(pool)
        k = rng.randint(1, 2)
        kind = rng.choice(["list", "ndarray", "series"])
        xs1 = list(xs0)
        xs1[pos] = new
        which = rng.choice(["symdel", "nearest_neighbor"])
        f_ = (lambda o, k: nn.symdel(o, max_edits=k)) if which == "symdel" else (lambda o, k: nn.nearest_neighbor(o, max_edits=k))
        add(f"{which}|edited-in-place-{kind}", xs1, k, model=False,
            fn=lambda _xs, k, kind=kind, xs0=xs0, pos=pos, new=new, f_=f_: edited_search(kind, xs0, pos, new, k, f_),
            extra={"history": [], "edited_in_place": {"container": kind, "first_searched": xs0, "then_set": [pos, new]}})
    # repertoires (oracle only for the big ones)
    for _ in range(25 if not thorough else 150):
        n = rng.choice([1, 2, 5, 20, 60, 120] if not thorough else [5, 50, 200, 600])
        xs = gen.repertoire(rng, n)
        k = rng.choice([1, 1, 2, 2, 3])
        add("symdel|R", xs, k, model=n <= 12)
        if rng.random() < 0.3:
            add("nearest_neighbor|R", xs, k, model=False, fn=nnf)
    chk.exhaustive = True

    def on_violation(idx, case, rep):
        meta = case[4]
        if "history" in meta:       # the failure needs the earlier calls: replayed as a history, not shrunk
            rep["replay_note"] = ("run the calls in meta.history first (see run_history), then symdel(xs, max_edits=k)" if "edited_in_place" not in meta else
                                  "search meta.edited_in_place.first_searched held in the named container, set position then_set[0] to then_set[1] in place, search the same object again")
            return rep
        try:
            small = shrink(meta["xs"], meta["k"], lambda xs, k: nn.symdel(xs, max_edits=k))
            rep["minimal_input"] = {"xs": small, "k": meta["k"]}
        except Exception as e:  # noqa
            rep["shrink_error"] = repr(e)
        return rep

    b.run(on_violation)
    probe_xs = gen.planted(rng, 3000)[0]
    if not chk.skip_large("the 47 011-sequence collection", probe=lambda: nn.symdel(probe_xs, max_edits=1)):
        large_collection(chk, nn, rng, 47011 if not thorough else 70001)


def large_collection(chk, nn, rng, n):
    """more than 46341 sequences (position products beyond 2^31): planted neighbour pairs at late positions must be reported, and
    every reported triplet must be a true pair with its exact distance"""
    from Levenshtein import distance as levd
    xs, pairs = gen.planted(rng, n)
    for name, fn in (("symdel", lambda: nn.symdel(xs, max_edits=1)), ("nearest_neighbor", lambda: nn.nearest_neighbor(xs, max_edits=1))):
        r = core.call_real(lambda: [(int(a), int(b), int(d)) for a, b, d in fn()])
        chk.case(nontrivial_key=("large", name, n))
        chk.count("large-collection")
        if r[0] != "ok":
            chk.violation(f"C01|{name}|large|raises-{r[1]}", f"{name} raised {r[1]} on {n} sequences", {"n": n})
            continue
        got = set(r[1])
        want = {(i, j, d) for i, j, d in pairs} | {(j, i, d) for i, j, d in pairs}
        bad = [t for t in r[1] if not (0 <= t[0] < n and 0 <= t[1] < n and t[0] != t[1] and levd(xs[t[0]], xs[t[1]]) == t[2] <= 1)]
        missing = sorted(want - got)
        if bad or missing or len(got) != len(r[1]):
            ex = (bad or missing)[0] if (bad or missing) else None
            chk.violation(f"C01|{name}|large|{'spurious' if bad else ('missing' if missing else 'repeated')}",
                          f"{name} on {n} sequences: {len(bad)} reported triplets are not true pairs, {len(missing)} planted pairs are missing, "
                          f"{len(r[1]) - len(got)} repeated; e.g. {ex}", {"n": n, "example": ex, "planted": pairs[:6],
                                                                        "generator": "gen.planted(random.Random(seed-derived), n)"})


def replay(path):
    nn = search.nn()
    r = json.load(open(path))
    inp = r.get("minimal_input") or r.get("meta")
    if not inp or "xs" not in inp:
        print(json.dumps(r, indent=1)[:3000])
        return 0
    xs, k = inp["xs"], inp["k"]
    hist = [tuple(h) for h in inp.get("history", [])]
    if hist:
        print("history:", hist)
    ed = inp.get("edited_in_place")
    if ed:
        print("edited in place:", ed)
        real = core.call_real(lambda: core.canon_trips(edited_search(ed["container"], ed["first_searched"], ed["then_set"][0], ed["then_set"][1], k,
                                                                     lambda o, k_: nn.symdel(o, max_edits=k_))))
    else:
        real = core.call_real(lambda: core.canon_trips(run_history(nn, hist, xs, k)))
    sp = core.run_driver([{"op": "brute_self", "xs": xs, "k": k, "mode": "lev"},
                          {"op": "symdel_self", "xs": xs, "k": k, "mode": "lev"}])
    print("input:", xs, "k =", k)
    print("real :", real)
    print("spec :", core.canon_model_trips(sp[0][1]))
    print("model:", core.canon_model_trips(sp[1][1]))
    ok = real[0] == "ok" and real[1] == core.canon_model_trips(sp[0][1])
    print("verdict:", "holds" if ok else "VIOLATES")
    return 0 if ok else 1
