"""C10 — results independent of output format and input container; invalid arguments rejected."""
import json

import numpy as np
import pandas as pd

from harness import core, gen, search
from harness.gen import AA

TRUSTED = [
    "Lean 4.33.0 kernel; axioms propext, Classical.choice, Quot.sound only (audited per theorem)",
    "scipy.sparse.coo_matrix((data,(row,col))).toarray() modelled by cooDense (sums repeated entries)",
    "containers (list, tuple, ndarray, pandas Series with any index) are tied by correspondence only: the model works on the positional list of strings",
    "argument validation is modelled on an abstract description of the arguments built by the harness (type tags, values)",
]

ENGINES = ["symdel", "nearest_neighbor", "hash_based", "kdtree"]


def containers(rng, xs):
    n = len(xs)
    perm = list(range(n))
    rng.shuffle(perm)
    return [
        ("list", list(xs)),
        ("tuple", tuple(xs)),
        ("ndarray", np.array(xs)),
        ("series-default", pd.Series(xs)),
        ("series-shifted", pd.Series(xs, index=range(5, 5 + n))),
        ("series-permuted", pd.Series(xs, index=perm)),
        ("series-string", pd.Series(xs, index=[f"r{i}" for i in range(n)])),
    ]


def run(chk):
    nn = search.nn()
    chk.trusted_base = TRUSTED
    chk.assumptions = ["Python run without -O (assert statements active)"]
    chk.rule = ("every engine x output_type {triplets, coo_matrix, ndarray} x container {list, tuple, ndarray, Series with default / "
                "shifted / permuted / string index}, one- and two-collection; every invalid-argument class; non-trivial = distinct "
                "case whose result has >= 1 neighbour pair, or a rejected invalid call")
    chk.build_and_audit()
    rng = chk.rng
    thorough = chk.tier == "thorough"
    pool = gen.all_strings("ACD", 3)
    fns = {"symdel": nn.symdel, "nearest_neighbor": nn.nearest_neighbor, "hash_based": nn.hash_based, "kdtree": nn.kdtree,
           # the same searches with the progress bar switched on (tqdm wrappers around the loops must not change what is iterated)
           "hash_based+progress": lambda *a, **k: nn.hash_based(*a, progress=True, **k),
           "symdel+progress": lambda *a, **k: nn.symdel(*a, progress=True, **k)}

    inputs = [["CAAA", "CDDD", "CADA", "CAAA"], ["AC", "A", "AC", "AD", ""], ["A"]]
    for _ in range(6 if not thorough else 40):
        inputs.append(gen.sub_collection(rng, pool, rng.randint(1, 9)))
    inputs.append(gen.repertoire(rng, 25, allow_empty=False))

    # ---- containers x engines (triplets must equal the positional specification)
    b = search.Batch(chk, "corr:containers")
    for xs in inputs:
        k = rng.choice([1, 2])
        sop = {"op": "brute_self", "xs": list(xs), "k": k, "mode": "lev"}
        for cname, cont in containers(rng, xs):
            for e in ENGINES:
                if e == "hash_based" and k > 1 and max(len(x) for x in xs) > 6:
                    continue
                b.add(f"{e}[{cname}]|self", lambda e=e, cont=cont, k=k: fns[e](cont, max_edits=k), None, sop,
                      {"xs": list(xs), "k": k, "container": cname})
        # two-collection form with containers on both sides
        qs = gen.sub_collection(rng, pool, rng.randint(1, 5))
        sop2 = {"op": "brute_cross", "ref": list(xs), "qs": qs, "k": k, "mode": "lev"}
        for (c1, cont1), (c2, cont2) in zip(containers(rng, xs), reversed(containers(rng, qs))):
            b.add(f"symdel[{c1},{c2}]|two", lambda cont1=cont1, cont2=cont2, k=k: nn.symdel(cont1, max_edits=k, seqs2=cont2), None, sop2,
                  {"ref": list(xs), "qs": qs, "k": k, "containers": [c1, c2]})
            b.add(f"SymdelDB[{c1},{c2}]|two", lambda cont1=cont1, cont2=cont2, k=k: nn.SymdelDB(cont1, k).lookup(cont2), None, sop2,
                  {"ref": list(xs), "qs": qs, "k": k, "containers": [c1, c2]})
    b.run()

    # ---- containers with warnings promoted to errors (pytest -W error, strict pipelines): a container that works as a list must work
    # as an array / Series too - compared with what the LIST gives under the same filter (if the list call itself warns, nothing is claimed)
    import warnings as _w
    for xs in inputs[:6]:
        for e in ENGINES:
            if e == "hash_based" and max(len(x) for x in xs) > 6:
                continue
            def strict(cont, e=e):
                with _w.catch_warnings():
                    _w.simplefilter("error")
                    return core.canon_trips(fns[e](cont, max_edits=1))
            ref_ = core.call_real(lambda: strict(list(xs)))
            if ref_[0] != "ok":
                continue
            for cname, cont in containers(rng, xs):
                got_ = core.call_real(lambda: strict(cont))
                chk.case(nontrivial_key=("strict-warnings", e, cname, str(xs)))
                chk.count("containers:warnings-as-errors")
                if got_ != ref_:
                    chk.violation(f"C10|{e}|{cname}|warnings-as-errors", f"{e} on a {cname} under warnings.simplefilter('error') gives {str(got_)[:100]}, "
                                  f"the same sequences as a list give {str(ref_)[:60]}", {"engine": e, "xs": list(xs), "container": cname})

    # ---- output formats
    cases = []
    for xs in inputs:
        k = rng.choice([1, 2])
        qs = gen.sub_collection(rng, pool, rng.randint(1, 6))
        for e in ENGINES:
            if e == "hash_based" and k > 1 and max(len(x) for x in xs) > 6:
                continue
            cases.append((e, list(xs), None, k))
            if e in ("hash_based", "symdel") and len(cases) < 60:
                cases.append((e + "+progress", list(xs), None, k))
        cases.append(("symdel", list(xs), qs, k))
        cases.append(("nearest_neighbor", list(xs), qs, k))
        if len(cases) < 40:
            # an EMPTY second collection (a filtered column with no rows): no pairs, matrices of len(seqs) rows and no column
            cases.append(("symdel", list(xs), [], k))
            cases.append(("nearest_neighbor", list(xs), [], k))
        # Hamming mode through every format too (sequences of several lengths: the matrix is still len(seqs) x len(seqs))
        mixed = list(xs) + [xs[0][:-1] if len(xs[0]) > 1 else xs[0] + "A", xs[-1] + "C"]
        for e in ENGINES:
            cases.append((e + "@ham", mixed, None, k))
        cases.append(("symdel@ham", mixed, qs, k))
    ops = []
    for e, xs, qs, k in cases:
        mode = "ham" if e.endswith("@ham") else "lev"
        if qs is None:
            ops.append({"op": "brute_self", "xs": xs, "k": k, "mode": mode})
        else:
            ops.append({"op": "brute_cross", "ref": xs, "qs": qs, "k": k, "mode": mode})
    specs = core.run_driver_parallel(ops)
    dense_ops = []
    for (e, xs, qs, k), sp in zip(cases, specs):
        trip = [[t[0], t[1], int(core.frac(t[2]))] for t in sp[1]]
        dense_ops.append({"op": "coo_dense", "trip": trip, "nref": len(xs), "nqry": len(qs) if qs is not None else len(xs)})
    denses = core.run_driver_parallel(dense_ops)
    dec_ops = [{"op": "decode_dense", "m": d[1]} for d in denses]
    decs = core.run_driver_parallel(dec_ops)
    for (e, xs, qs, k), sp, dm, dec in zip(cases, specs, denses, decs):
        kw = {"max_edits": k}
        if qs is not None:
            kw["seqs2"] = qs
        if e.endswith("@ham"):
            kw["custom_distance"] = "hamming"
        fn_e = fns[e.split("@")[0]]
        want_dense = dm[1]
        spec_trip = core.canon_model_trips(sp[1])
        meta = {"engine": e, "xs": xs, "qs": qs, "k": k}
        for ot in ("triplets", "coo_matrix", "ndarray"):
            st, val = core.call_real(lambda: fn_e(xs, output_type=ot, **kw))
            chk.case(sample={**meta, "output_type": ot} if len(chk.samples) < 4 else None,
                     nontrivial_key=(e, ot, str(xs), str(qs), k) if spec_trip else None)
            chk.count(f"format:{ot}")
            if st != "ok":
                chk.violation(f"C10|{e}|{ot}|raises-{val}", f"{e}(output_type={ot}) raised {val}", {**meta, "output_type": ot})
                continue
            if ot == "triplets":
                canon = core.call_real(lambda: core.canon_trips(val))
                if canon[0] != "ok":
                    chk.violation(f"C10|{e}|triplets|malformed", f"{e} triplets are not (int, int, number) triples: {str(val)[:200]}", {**meta, "real": str(val)[:1000]})
                    continue
                if core.canon_trips(val) != spec_trip:
                    chk.violation(f"C10|{e}|triplets|differs", f"{e} triplets differ from the specification",
                                  {**meta, "real": str(core.canon_trips(val))[:2000], "spec": str(spec_trip)[:2000]})
                continue
            # the result must HAVE the requested form (a sparse matrix / a 2-d array), whatever the input size
            import scipy.sparse as _sp
            if (ot == "coo_matrix" and not _sp.issparse(val)) or (ot == "ndarray" and not (isinstance(val, np.ndarray) and val.ndim == 2)):
                chk.violation(f"C10|{e}|{ot}|wrong-type", f"{e}(output_type={ot}) returned a {type(val).__name__} ({str(val)[:60]})", {**meta, "output_type": ot})
                continue
            if ot == "coo_matrix":
                val = val.tocoo()
                rc = list(zip(val.row.tolist(), val.col.tolist()))
                if len(set(rc)) != len(rc):
                    chk.violation(f"C10|{e}|coo|entry-accumulated-twice", f"{e} coo_matrix lists a (row, col) pair twice",
                                  {**meta, "row_col": str(rc)[:2000]})
                dense = val.toarray()
            else:
                dense = val
            got = [[int(v) for v in row] for row in np.asarray(dense).tolist()]
            if got != want_dense:
                chk.violation(f"C10|{e}|{ot}|matrix-differs", f"{e}(output_type={ot}) matrix is not 'd at [r, q] for each (q, r, d), 0 elsewhere'",
                              {**meta, "output_type": ot, "real": str(got)[:2000], "model": str(want_dense)[:2000]})
            # decoding the matrix recovers exactly the triplets with d != 0 (theorem C10_formats_agree), checked on the real matrix
            back = sorted((q, r, str(got[r][q])) for r in range(len(got)) for q in range(len(got[r])) if got[r][q] != 0)
            want_back = sorted((t[0], t[1], t[2]) for t in spec_trip if t[2] != "0")
            model_back = sorted((t[0], t[1], str(t[2])) for t in dec[1])
            if back != want_back or model_back != want_back:
                chk.violation(f"C10|{e}|{ot}|decode-differs", f"{e}(output_type={ot}): decoding the matrix does not give the non-zero triplets",
                              {**meta, "output_type": ot, "decoded": str(back)[:1500], "want": str(want_back)[:1500]})

    # ---- a capped search (max_returns) is not symmetric: the matrix forms hold exactly the triplets that the triplet form returns
    star = ["CASSF", "CASSA", "CASSD", "CASSE", "CASSG", "CAQQQ"]
    for mr_ in (1, 2):
        for e_ in ("kdtree",):
            tr_ = core.call_real(lambda: sorted((int(q_), int(r_), int(d_)) for q_, r_, d_ in fns[e_](star, max_edits=1, max_returns=mr_)))
            for ot in ("coo_matrix", "ndarray"):
                mt_ = core.call_real(lambda: fns[e_](star, max_edits=1, max_returns=mr_, output_type=ot))
                chk.case(nontrivial_key=("capped-format", e_, ot, mr_))
                got_ = None
                if mt_[0] == "ok" and tr_[0] == "ok":
                    dense_ = np.asarray(mt_[1].toarray() if ot == "coo_matrix" else mt_[1])
                    got_ = sorted((int(q_), int(r_), int(dense_[r_, q_])) for r_ in range(dense_.shape[0]) for q_ in range(dense_.shape[1]) if dense_[r_, q_] != 0)
                if tr_[0] != "ok" or got_ != tr_[1]:
                    chk.violation(f"C10|{e_}|{ot}|capped-search-matrix", f"{e_}(max_returns={mr_}, output_type={ot}) does not hold exactly the triplets of the "
                                  f"triplet form: {str(got_)[:200]} vs {str(tr_)[:200]}", {"xs": star, "max_returns": mr_, "output_type": ot})
    # ---- matrix formats with a NON-INTEGER custom distance: the value d itself must sit at [r, q]
    from Levenshtein import distance as levd
    half = lambda a, b: levd(a, b) / 2  # noqa
    for xs in inputs[:6]:
        for e in ENGINES:
            trip = core.call_real(lambda: fns[e](list(xs), max_edits=2, custom_distance=half, max_custom_distance=1.0))
            if trip[0] != "ok":
                continue
            want = [[0.0] * len(xs) for _ in xs]
            for q, r, d in trip[1]:
                want[int(r)][int(q)] = float(d)
            for ot in ("coo_matrix", "ndarray"):
                real = core.call_real(lambda: fns[e](list(xs), max_edits=2, custom_distance=half, max_custom_distance=1.0, output_type=ot))
                chk.case(nontrivial_key=("float-format", e, ot, str(xs)) if trip[1] else None)
                chk.count(f"format-float:{ot}")
                got = None
                if real[0] == "ok":
                    got = np.asarray(real[1].toarray() if ot == "coo_matrix" else real[1]).astype(float).tolist()
                if got != want:
                    chk.violation(f"C10|{e}|{ot}|float-distance-not-encoded", f"{e}(output_type={ot}) with a non-integer custom distance does not "
                                  "hold d at [r, q] (e.g. 0.5 truncated to 0)", {"engine": e, "xs": list(xs), "real": str(got)[:1500], "want": str(want)[:1500]})

    # ---- invalid arguments: must be rejected (any error); accept/reject compared with the model
    good = ["CAAA", "CADA"]
    dist0 = lambda a, b: 0 if a == b else 1  # noqa
    invalid = [
        ("empty-list", dict(seqs=[]), {"nSeqs": 0}),
        ("empty-array", dict(seqs=np.array([], dtype=str)), {"nSeqs": 0}),
        ("non-string-element", dict(seqs=["CAAA", 5]), {"allStr": False}),
        # ... also in FIRST position (every element is checked, the first included)
        ("non-string-first-element", dict(seqs=[5, "CAAA"]), {"allStr": False}),
        ("none-first-element", dict(seqs=[None, "CAAA", "CADA"]), {"allStr": False}),
        ("bytes-first-element", dict(seqs=(b"CAAA", "CADA")), {"allStr": False}),
        ("float-first-element", dict(seqs=[1.5, "CAAA"]), {"allStr": False}),
        ("none-element", dict(seqs=["CAAA", None]), {"allStr": False}),
        ("bytes-element", dict(seqs=[b"CAAA", b"CADA"]), {"allStr": False}),
        ("max_edits=0", dict(max_edits=0), {"maxEdits": 0}),
        ("max_edits=-1", dict(max_edits=-1), {"maxEdits": -1}),
        ("max_edits=1.0", dict(max_edits=1.0), {"maxEditsIsInt": False}),
        ("max_edits='1'", dict(max_edits="1"), {"maxEditsIsInt": False}),
        ("n_cpu=0", dict(n_cpu=0), {"nCpu": 0}),
        ("n_cpu=1.5", dict(n_cpu=1.5), {"nCpuIsInt": False}),
        ("max_returns=0", dict(max_returns=0), {"maxReturnsIsNone": False, "maxReturnsIsInt": True, "maxReturns": 0}),
        ("max_returns=1.5", dict(max_returns=1.5), {"maxReturnsIsNone": False, "maxReturnsIsInt": False}),
        ("output_type=unknown", dict(output_type="dense"), {"outputKnown": False}),
        # near misses: fragments, concatenations, other case, other types - a name is known only if it IS one of the three
        ("output_type=empty-string", dict(output_type=""), {"outputKnown": False}),
        ("output_type=fragment-coo", dict(output_type="coo"), {"outputKnown": False}),
        ("output_type=fragment-matrix", dict(output_type="matrix"), {"outputKnown": False}),
        ("output_type=fragment-array", dict(output_type="array"), {"outputKnown": False}),
        ("output_type=fragment-triplet", dict(output_type="triplet"), {"outputKnown": False}),
        ("output_type=concatenation", dict(output_type="tripletscoo_matrix"), {"outputKnown": False}),
        ("output_type=upper-case", dict(output_type="NDARRAY"), {"outputKnown": False}),
        ("output_type=trailing-blank", dict(output_type="ndarray "), {"outputKnown": False}),
        ("output_type=None", dict(output_type=None), {"outputKnown": False}),
        ("output_type=tuple", dict(output_type=("triplets",)), {"outputKnown": False}),
        ("custom_distance=bad-string", dict(custom_distance="levenshtein"), {"customOk": False}),
        ("custom_distance=nonzero-self", dict(custom_distance=lambda a, b: 1), {"customOk": False}),
        # a custom distance that cannot be evaluated on the sequences (raises): rejected, not passed on
        ("custom_distance=raises", dict(custom_distance=lambda a, b: len(a) / 0), {"customOk": False}),
        ("custom_distance=not-callable", dict(custom_distance=3), {"customOk": False}),
        # ... also one that fails only on a sequence compared with itself (the validation evaluates d(x, x); the search of distinct
        # sequences never does)
        ("custom_distance=raises-on-self", dict(custom_distance=lambda a, b: 1 // (a != b)), {"customOk": False}),
        ("max_custom_distance=-1", dict(custom_distance=dist0, max_custom_distance=-1), {"mcdNonneg": False}),
        ("max_custom_distance=nan", dict(custom_distance=dist0, max_custom_distance=float("nan")), {"mcdNonneg": False}),
        ("max_custom_distance='1'", dict(custom_distance=dist0, max_custom_distance="1"), {"mcdIsNumber": False, "mcdNonneg": False}),
    ]
    base = {"nSeqs": 2, "allStr": True, "maxEditsIsInt": True, "maxEdits": 1, "maxReturnsIsNone": True, "maxReturnsIsInt": False,
            "maxReturns": 0, "nCpuIsInt": True, "nCpu": 1, "customOk": True, "mcdIsNumber": True, "mcdNonneg": True,
            "outputKnown": True, "seqs2IsNone": True, "seqs2AllStr": False}
    vops = [{"op": "check_common_input", **base}]
    for _name, _kw, desc in invalid:
        vops.append({"op": "check_common_input", **{**base, **desc}})
    vops.append({"op": "check_common_input", **{**base, "seqs2IsNone": False, "seqs2AllStr": False}})
    vans = core.run_driver(vops)
    if vans[0] != ("ok", True) or any(a != ("ok", False) for a in vans[1:]):
        chk.broken_obligations.append("model checkCommonInput does not classify the argument descriptions as expected: " + str(vans)[:300])
    for e in ENGINES:
        st, val = core.call_real(lambda: fns[e](good, max_edits=1))
        if st != "ok":
            chk.violation(f"C10|{e}|valid-rejected", f"{e} rejects a valid call: {val}", {"engine": e, "seqs": good})
        # valid calls on the BOUNDARY of every validated argument are accepted and answered (smallest max_edits / max_returns / n_cpu,
        # radius 0, a two-sequence input, every documented output type)
        want_b = [(0, 1, 1), (1, 0, 1)]
        for bname, bkw in (("max_returns=1", dict(max_returns=1)), ("max_returns=2", dict(max_returns=2)), ("n_cpu=1", dict(n_cpu=1)),
                           ("max_custom_distance=0", dict(custom_distance=dist0, max_custom_distance=0)),
                           ("max_custom_distance=int", dict(custom_distance=dist0, max_custom_distance=1)),
                           ("max_custom_distance=float", dict(custom_distance=dist0, max_custom_distance=1.0)),
                           ("custom_distance=hamming", dict(custom_distance="hamming")), ("output_type=triplets", dict(output_type="triplets"))):
            st, val = core.call_real(lambda: sorted((int(a_), int(b_), int(d_)) for a_, b_, d_ in fns[e](good, max_edits=1, **bkw)))
            chk.case(nontrivial_key=("valid-boundary", e, bname))
            chk.count("valid-boundary")
            expect_b = [] if bname == "max_custom_distance=0" else want_b
            if st != "ok" or val != expect_b:
                chk.violation(f"C10|{e}|{bname}|valid-boundary", f"{e}(['CAAA', 'CADA'], max_edits=1, {bname}) is a valid call and should return {expect_b}: "
                              f"{st} {str(val)[:100]}", {"engine": e, "arguments": bname})
        for name, kw, _desc in invalid:
            args = dict(seqs=good, max_edits=1)
            args.update(kw)
            seqs = args.pop("seqs")
            st, val = core.call_real(lambda: fns[e](seqs, **args))
            chk.case(nontrivial_key=("invalid", e, name) if st == "error" else None)
            chk.count("invalid:" + name)
            if st == "ok":
                chk.violation(f"C10|{e}|{name}|not-rejected", f"{e} accepted invalid arguments ({name}) and returned {str(val)[:80]}",
                              {"engine": e, "class": name})
    # seqs2 with a non-string element (two-collection engines)
    for e in ("symdel", "nearest_neighbor"):
        st, val = core.call_real(lambda: fns[e](good, max_edits=1, seqs2=["CAAA", 3]))
        chk.case(nontrivial_key=("invalid", e, "seqs2-non-string") if st == "error" else None)
        if st == "ok":
            chk.violation(f"C10|{e}|seqs2-non-string|not-rejected", f"{e} accepted a non-string element in seqs2", {"engine": e})
    # a non-string element ANYWHERE in either collection, whatever the two lengths (front / tail of the longer one, tail of the shorter one)
    long_ = ["CAAA", "CADA", "CAAK", "CDDD", "CAAF"]
    short_ = ["CAAA", "CADA"]
    for e in ("symdel", "nearest_neighbor"):
        for bad in (5, float("nan"), b"CAAA", None):
            for where, s1, s2 in (("seqs2-tail-longer", short_, long_[:-1] + [bad]), ("seqs-tail-longer", long_[:-1] + [bad], short_),
                                  ("seqs2-tail-shorter", long_, short_[:-1] + [bad]), ("seqs-tail-shorter", short_[:-1] + [bad], long_),
                                  ("seqs2-front", short_, [bad] + long_[1:]), ("seqs2-middle-equal-lengths", long_, long_[:2] + [bad] + long_[3:])):
                for cont in (list, tuple):
                    st, val = core.call_real(lambda: fns[e](cont(s1), max_edits=1, seqs2=cont(s2)))
                    chk.case(nontrivial_key=("invalid", e, where, repr(bad), cont.__name__) if st == "error" else None)
                    chk.count("invalid:two-collections-non-string")
                    if st == "ok":
                        chk.violation(f"C10|{e}|{where}|non-string-not-rejected", f"{e} accepted the non-string element {bad!r} ({where}, {cont.__name__}) "
                                      f"and returned {str(val)[:60]}", {"engine": e, "where": where, "element": repr(bad), "container": cont.__name__})
    # the output format is chosen by the VALUE of output_type: strings built at run time (config files, str.lower(), np.str_) are
    # equal to the literals without being the same objects
    for e in ENGINES:
        base_t = core.call_real(lambda: core.canon_trips(fns[e](good, max_edits=1)))
        for nm, ot in (("joined", "".join(["trip", "lets"])), ("lowered", "TRIPLETS".lower()), ("np.str_", np.str_("triplets")), ("sliced", "xtriplets"[1:])):
            r_ = core.call_real(lambda: fns[e](good, max_edits=1, output_type=ot))
            chk.case(nontrivial_key=("runtime-output-type", e, nm))
            chk.count("format:runtime-string")
            if r_[0] != "ok" or not isinstance(r_[1], list) or ("ok", core.canon_trips(r_[1])) != base_t:
                chk.violation(f"C10|{e}|output_type-{nm}|differs", f"{e}(output_type=<'triplets' built at run time: {nm}>) returned "
                              f"{type(r_[1]).__name__ if r_[0] == 'ok' else r_} instead of the triplet list", {"engine": e, "how": nm})
        for nm, ot, typ in (("joined-ndarray", "".join(["nd", "array"]), np.ndarray),):
            r_ = core.call_real(lambda: fns[e](good, max_edits=1, output_type=ot))
            if r_[0] != "ok" or not isinstance(r_[1], typ):
                chk.violation(f"C10|{e}|output_type-{nm}|differs", f"{e}(output_type=<'ndarray' built at run time>) returned {str(r_)[:80]}", {"engine": e, "how": nm})
    # unclassified by the property (either outcome accepted): np.int64 as max_edits
    st, _ = core.call_real(lambda: nn.symdel(good, max_edits=np.int64(1)))
    chk.notes.append(f"unclassified: symdel(max_edits=np.int64(1)) -> {st}")


def replay(path):
    r = json.load(open(path))
    print(json.dumps(r, indent=1)[:4000])
    return 0
