"""C18 — input cleaning is total, cell-local and never alters the caller's table."""
import json
import math
import warnings

import numpy as np
import pandas as pd

from harness import core, gen
from harness.gen import AA

TRUSTED = [
    "Lean 4.33.0 kernel; axioms propext, Classical.choice, Quot.sound only (audited per theorem)",
    "Python objects are abstracted to PyObj (iteration / hashability / indexing behaviour of each built-in kind); objects with "
    "user-defined __iter__/__getitem__ that raise other exceptions are outside the model",
    "tidytcells standardisers are external: the harness calls them cell by cell and hands the results to the model as the function f",
    "pandas copy / rename / Series.map are modelled by standardizeTable; multimerge (pandas.merge) is compared with an independent "
    "reference join in the harness, not modelled in Lean (PARTIAL)",
]


def encode_item(x):
    if isinstance(x, str):
        return x
    if isinstance(x, bool):
        return None
    if isinstance(x, int):
        return x
    if isinstance(x, (list, dict, set)):
        return []           # unhashable
    return None             # other hashable


def encode(o):
    if isinstance(o, str):
        return {"t": "str", "v": o}
    if isinstance(o, bytes):
        return {"t": "bytes", "v": list(o)}
    if o is None:
        return {"t": "none"}
    if isinstance(o, bool):
        return {"t": "int", "v": int(o)}
    if isinstance(o, (float, np.floating)):
        return {"t": "nan"} if math.isnan(o) else {"t": "float"}
    if isinstance(o, (int, np.integer)):
        return {"t": "int", "v": int(o)}
    if isinstance(o, list):
        return {"t": "list", "v": [encode_item(x) for x in o]}
    if isinstance(o, tuple):
        return {"t": "tuple", "v": [encode_item(x) for x in o]}
    if isinstance(o, dict):
        return {"t": "dict", "v": [encode_item(x) for x in o]}
    if isinstance(o, (set, frozenset)):
        return {"t": "set", "v": [encode_item(x) for x in o]}
    return {"t": "other"}


def run(chk):
    from pyrepseq import io
    import tidytcells as tt
    warnings.simplefilter("ignore")
    chk.trusted_base = TRUSTED
    chk.assumptions = ["dict values in the object corpus are not the letter 'C' (the abstraction keeps keys only)"]
    chk.rule = ("a corpus of Python objects covering every constructor of the abstraction (strings of any content incl. empty, None, NaN, "
                "numbers, bytes, lists / tuples / dicts / sets empty and non-empty, nested, arbitrary objects); tables mixing valid, "
                "non-standard and junk gene symbols / CDR3s / epitopes / MHC names with missing cells and extra columns under all option "
                "combinations; 2-4 tables with partially overlapping keys; non-trivial = distinct object / table case")
    chk.build_and_audit()
    rng = chk.rng
    thorough = chk.tier == "thorough"

    # ---- predicates
    strings = ["", "C", "F", "CF", "CASSF", "CASSLGQAYEQYF", "CASSW", "CASSC", "ASSF", "CASS", "cassf", "CASSF ", "CXSSF", "CAS1F", "C.F",
               "CASSÜF", "B", "ACDEFGHIKLMNPQRSTVWY", "ACDEFGHIKLMNPQRSTVWYX", " ", "CAF\n"]
    for _ in range(60 if not thorough else 600):
        strings.append("".join(rng.choice(AA + ("XBZ*-" if rng.random() < 0.2 else "")) for _ in range(rng.randint(0, 8))))
    corpus = list(strings) + [None, float("nan"), np.nan, 0, 1, -3, 7, 2.5, 1e300, True, False, np.int64(4), np.float64(0.5),
                              b"", b"CAF", b"C", [], ["C", "A", "F"], ["C"], ["CA", "F"], ["C", 1], ["C", ["A"]], [["C"]], [1, 2], [None],
                              (), ("C", "A", "F"), ("C", "F"), ("A",), ("C", None, "F"),
                              {}, {"C": 1}, {"C": 1, "F": 2}, {0: "x", "C": 1}, {0: 1, -1: 2}, {"A": 1, 0: "q", -1: "r"},
                              set(), {"C", "A", "F"}, {"C"}, frozenset({"C", "F"}), object(), io, len, 3 + 4j]
    ops, reals = [], []
    for o in corpus:
        enc = encode(o)
        for fn in ("isvalidaa", "isvalidcdr3"):
            ops.append({"op": fn, "A": AA, "obj": enc})
            reals.append((fn, o, core.call_real(lambda: getattr(io, fn)(o))))
    ans = core.run_driver_parallel(ops)
    for (fn, o, real), a, op in zip(reals, ans, ops):
        chk.case(sample={"fn": fn, "obj": repr(o)[:60], "real": str(real)} if chk.evaluations % 60 == 0 else None,
                 nontrivial_key=(fn, repr(o)[:100], op["obj"]["t"]))
        chk.count(f"{fn}:{op['obj']['t']}")
        model = ("ok", a[1]["ok"]) if a[0] == "ok" and "ok" in a[1] else ("error", a[1].get("error") if a[0] == "ok" else a[1])
        kind = op["obj"]["t"] + ("-empty" if op["obj"].get("v") in ("", [], None) and op["obj"]["t"] in ("str", "list", "tuple", "dict", "set", "bytes") else "")
        if real[0] == "error":
            # the property: a bool for ANY object, never an exception
            chk.violation(f"C18|{fn}|{kind}|raises-{real[1]}", f"{fn}({o!r}) raised {real[1]} instead of returning a bool",
                          {"fn": fn, "obj": repr(o), "model": str(model)})
        elif not isinstance(real[1], (bool, np.bool_)):
            chk.violation(f"C18|{fn}|{kind}|not-bool", f"{fn}({o!r}) returned {real[1]!r}, not a bool", {"fn": fn, "obj": repr(o)})
        elif model[0] == "ok" and bool(real[1]) != model[1]:
            # string oracle (independent of the model)
            if isinstance(o, str):
                want = all(c in AA for c in o) and (fn == "isvalidaa" or (len(o) > 0 and o[0] == "C" and o[-1] in "FWC"))
                if want == model[1]:
                    chk.violation(f"C18|{fn}|str|wrong-answer", f"{fn}({o!r}) = {real[1]} but the documented rule gives {want}", {"fn": fn, "obj": o})
                else:
                    chk.model_error(f"{fn}({o!r}): model {model[1]} vs rule {want}")
            else:
                chk.violation(f"C18|{fn}|{kind}|differs", f"{fn}({o!r}) = {real[1]} but the model of Python's semantics gives {model[1]}",
                              {"fn": fn, "obj": repr(o)})

    # ---- standardize_dataframe
    std_cols = ["TRAV", "CDR3A", "TRAJ", "TRBV", "CDR3B", "TRBJ", "Epitope", "MHCA", "MHCB"]
    values = {
        "TRAV": ["av26.1*1", "TCRAV20*01", "TRAV1-1*01", "unknown", "TRAV8-4", "TRAV8-5", "", None, "TRAV40*01"],
        "TRAJ": ["aj43*1", "TRAJ28*01", "junk", None],
        "TRBV": ["bv13*1", "TCRBV28S1*01", "TRBV7-2*01", "TRBV1*01", "TRBV1", "TRBV12-1", "xx", None],
        "TRBJ": ["bj1.5*1", "TRBJ2-4*01", "nope", None],
        "CDR3A": ["CIVRAPGRADMRF", "AVPSGAGSYQLT", "ATQY", "CAVSGC", "CC", "unknown", "cavr", None, ""],
        "CDR3B": ["CASSYLPGQGDHYSNQPQHF", "ASSDWGSQNTLY", "ASSQ", "CASSLGC", "C", "CASSW", "CASS LF", None, "12345"],
        "Epitope": ["FLKEKGGL", "not an epitope", "glcTLVAML", None, ""],
        "MHCA": ["b8", "HLA-DQA1*05", "HLA-A*02:01", "zzz", None],
        "MHCB": ["b2m", "HLA-DQB1*02", "B2M", None, "junk"],
    }
    ops, metas = [], []
    prev = None
    n_tab = 26 if not thorough else 160
    flip_plan = []
    for t in range(n_tab):
        if flip_plan:
            # replay the previous table with exactly one option flipped (a result cached across calls would be stale here)
            pass
        use = [c for c in std_cols if rng.random() < 0.75] or ["CDR3B"]
        forced = {0: "swap", 2: "chain", 4: "swap", 6: "chain", 8: "multi"}.get(t)      # every run sees each mapper shape
        if forced:
            use = sorted(set(use) | {"CDR3A", "CDR3B", "TRBV"}, key=std_cols.index)
        if t in (16, 18, 20):
            # every run: tables holding only PART of the standard columns - gene / MHC columns of a chain without its CDR3 column
            use = [[c for c in std_cols if c not in ("CDR3A", "CDR3B")], ["TRAV", "TRAJ", "MHCA", "CDR3B", "TRBV"], ["TRBJ", "MHCB", "Epitope", "TRAV"]][(t - 16) // 2]
        nrow = rng.randint(1, 6) if t < 16 else rng.randint(3, 6)
        data = {c: [rng.choice(values[c]) for _ in range(nrow)] for c in use}
        if t in (10, 12, 14) and not forced:
            # every run: cells of ONE column that differ only in letter case or in surrounding blanks - each cell is standardised on its
            # own (tidytcells treats 'pp65' / 'PP65' and 'CASSF' / 'CASSF ' differently), whatever else the column holds and in any row order
            nrow = 4
            use = sorted(set(use) | {"Epitope", "CDR3B", "CDR3A"}, key=std_cols.index)
            data = {c: [rng.choice(values[c]) for _ in range(nrow)] for c in use}
            ep, cb3, ca3 = ["pp65", "PP65", "pp65 ", "Pp65"], ["CASSF", "CASSF ", " CASSF", "cassf"], ["CAVRF ", "CAVRF", "cavrf", "CAVRF"]
            if t != 10:
                ep, cb3, ca3 = ep[::-1], cb3[::-1], ca3[::-1]
            data["Epitope"], data["CDR3B"], data["CDR3A"] = ep, cb3, ca3
        if t == 24:
            # every run: junctions WITHOUT their closing residue beside valid J genes of several kinds (and beside a missing J): the
            # junction cell is standardised from the junction cell alone, whatever the row's J column says
            nrow = 4
            use = [c for c in std_cols if c in ("TRAV", "CDR3A", "TRAJ", "TRBV", "CDR3B", "TRBJ")]
            data = {"TRAV": ["TRAV8-4", "TRAV12-2*01", None, "TRAV1-1"], "CDR3A": ["CAVR", "CAVRDSNYQLI", "CAVF", "CAV"],
                    "TRAJ": ["TRAJ43*01", "TRAJ33*01", "TRAJ28*01", None],
                    "TRBV": ["TRBV7-2*01", None, "TRBV1", "TRBV9"], "CDR3B": ["CASSW", "CASS", "CASSLGQAYEQY", "CASSF"],
                    "TRBJ": ["TRBJ2-4*01", "TRBJ1-5*01", "TRBJ2-7*01", None]}
            data = {c: data[c] for c in use}
        data["clone_count"] = [rng.randint(1, 9) for _ in range(nrow)]
        data["note"] = [rng.choice(["x", None, "TRAV1-1*01"]) for _ in range(nrow)]
        # missing cells come as None, float NaN or pandas' NA (object columns holding pd.NA; nullable "string" columns)
        na_kind = rng.choice(["none", "none", "pd.NA", "string-dtype"])
        if t in (16, 18, 20, 22):
            na_kind = ("pd.NA", "string-dtype", "none", "pd.NA")[(t - 16) // 2]        # every run: each kind of missing-cell marker
            if t in (18, 22):
                # ... and a missing cell in every standard column present
                for c in use:
                    data[c][0] = None
        if na_kind == "pd.NA":
            data = {c: [pd.NA if v is None else v for v in vals] for c, vals in data.items()}
        # row labels: unique in any order, or repeated (tables concatenated without ignore_index) - cells are cells either way
        idx = rng.sample(range(100), nrow) if rng.random() < 0.65 else [rng.randrange(max(1, nrow // 2)) for _ in range(nrow)]
        df = pd.DataFrame(data, index=idx)
        if na_kind == "string-dtype":
            for c in (rng.sample(use, rng.randint(1, len(use))) if t != 18 else use):
                df[c] = df[c].astype("string")
        if t == 22:
            for c in use:                      # object columns that really hold pd.NA (a plain text column would store it as NaN)
                df[c] = pd.Series(list(data[c]), index=df.index, dtype=object)
        mapper = None
        mk = {"swap": 0.5, "chain": 0.6, "multi": 0.75}.get(forced, rng.random())
        if mk < 0.4 and use:
            old = rng.choice(use)
            df = df.rename(columns={old: "my_" + old.lower()})
            mapper = {"my_" + old.lower(): old}
        elif mk < 0.55 and "CDR3A" in use and "CDR3B" in use:
            # a swap: the renaming is ONE simultaneous substitution of column names, not a sequence of renames
            mapper = {"CDR3A": "CDR3B", "CDR3B": "CDR3A"} if rng.random() < 0.5 else {"CDR3B": "CDR3A", "CDR3A": "CDR3B"}
        elif mk < 0.7 and "TRBV" in use:
            # a chain: one entry's target is another entry's source
            df = df.rename(columns={"TRBV": "v_call"})
            df["TRBV"] = [rng.choice(["free text", "TRBV9", None]) for _ in range(nrow)]
            mapper = {"v_call": "TRBV", "TRBV": "TRBV_freetext"} if rng.random() < 0.5 else {"TRBV": "TRBV_freetext", "v_call": "TRBV"}
        elif mk < 0.8 and len(use) >= 2:
            a_, b_ = rng.sample(use, 2)
            df = df.rename(columns={a_: "col_" + a_, b_: "col_" + b_})
            mapper = {"col_" + a_: a_, "col_" + b_: b_, "absent": "also_absent"}
        opts = dict(standardize=rng.random() < 0.8, species=rng.choice(["HomoSapiens", "MusMusculus"]),
                    tcr_enforce_functional=rng.random() < 0.5, tcr_precision=rng.choice(["gene", "allele"]),
                    mhc_precision=rng.choice(["gene", "protein", "allele"]), strict_cdr3_standardization=rng.random() < 0.5,
                    suppress_warnings=True)
        if t == 24:
            opts.update(species="HomoSapiens", strict_cdr3_standardization=False)
        if t in (10, 12, 14, 16, 18, 20, 22, 24):
            opts["standardize"] = True            # (the forced tables above are about what standardisation does)
        if t % 2 == 1 and prev is not None:
            df, mapper, prev_opts = prev
            df = df.copy(deep=True)
            opts = dict(prev_opts)
            opts["standardize"] = True
            flag = rng.choice(["tcr_enforce_functional", "strict_cdr3_standardization", "tcr_precision", "mhc_precision", "species"])
            if flag in ("tcr_enforce_functional", "strict_cdr3_standardization"):
                opts[flag] = not opts[flag]
            elif flag == "tcr_precision":
                opts[flag] = "allele" if opts[flag] == "gene" else "gene"
            elif flag == "mhc_precision":
                opts[flag] = "protein" if opts[flag] != "protein" else "gene"
            else:
                opts[flag] = "MusMusculus" if opts[flag] == "HomoSapiens" else "HomoSapiens"
        prev = (df.copy(deep=True), mapper, dict(opts, standardize=True))
        before = df.copy(deep=True)
        if t % 5 == 4:
            # no options given: the documented defaults (standardize, HomoSapiens, functional genes only, gene precision, non-strict CDR3)
            opts = dict(standardize=True, species="HomoSapiens", tcr_enforce_functional=True, tcr_precision="gene", mhc_precision="gene",
                        strict_cdr3_standardization=False, suppress_warnings=True)
            real = core.call_real(lambda: io.standardize_dataframe(df, col_mapper=mapper, suppress_warnings=True) if mapper else
                                  io.standardize_dataframe(df, suppress_warnings=True))
        else:
            real = core.call_real(lambda: io.standardize_dataframe(df, col_mapper=mapper, **opts))
        unchanged = df.equals(before) and list(df.columns) == list(before.columns) and list(df.index) == list(before.index)

        def f_for(col, v):
            if col in ("CDR3A", "CDR3B"):
                return tt.junction.standardize(seq=v, strict=opts["strict_cdr3_standardization"], suppress_warnings=True)
            if col in ("TRAV", "TRAJ", "TRBV", "TRBJ"):
                return tt.tr.standardize(gene=v, species=opts["species"], enforce_functional=opts["tcr_enforce_functional"],
                                         precision=opts["tcr_precision"], suppress_warnings=True)
            if col in ("MHCA", "MHCB"):
                return tt.mh.standardize(gene=v, species=opts["species"], precision=opts["mhc_precision"], suppress_warnings=True)
            return tt.aa.standardize(seq=v, on_fail="keep", suppress_warnings=True)

        cols_after = [mapper.get(c, c) if mapper else c for c in df.columns]
        ftab = []
        cellstr = lambda v: None if (v is None or v is pd.NA or (isinstance(v, float) and math.isnan(v))) else str(v)  # noqa
        for c_old, c_new in zip(df.columns, cols_after):
            if c_new in std_cols:
                for v in set(x for x in df[c_old] if cellstr(x) is not None):
                    r = core.call_real(lambda: f_for(c_new, v))
                    ftab.append([c_new, str(v), cellstr(r[1]) if r[0] == "ok" else "<<raised>>"])
        rows = [[cellstr(v) for v in row] for row in df.itertuples(index=False)]
        ops.append({"op": "standardize_table", "columns": list(df.columns), "index": [str(i) for i in df.index], "rows": rows,
                    "mapper": [[k, v] for k, v in (mapper or {}).items()], "standardize": opts["standardize"], "f": ftab})
        metas.append((real, unchanged, opts, mapper, rows, list(df.columns)))
    ans = core.run_driver_parallel(ops)
    for (real, unchanged, opts, mapper, rows, cols), a in zip(metas, ans):
        meta = {"columns": cols, "rows": rows, "options": opts, "col_mapper": mapper}
        chk.case(sample={"columns": cols, "options": opts} if chk.evaluations % 5 == 0 else None,
                 nontrivial_key=("std", json.dumps(meta, sort_keys=True, default=str)[:800]))
        chk.count("standardize_dataframe:" + ("on" if opts["standardize"] else "off"))
        if not unchanged:
            chk.violation("C18|standardize_dataframe|mutates-input", "standardize_dataframe modified the caller's table", meta)
        if real[0] != "ok":
            chk.violation(f"C18|standardize_dataframe|raises-{real[1]}", f"standardize_dataframe raised {real[1]}", meta)
            continue
        out = real[1]
        cellstr = lambda v: None if (v is None or v is pd.NA or (isinstance(v, float) and math.isnan(v))) else str(v)  # noqa
        got = {"columns": list(out.columns), "index": [str(i) for i in out.index],
               "rows": [[cellstr(v) for v in row] for row in out.itertuples(index=False)]}
        if got != a[1]:
            chk.violation("C18|standardize_dataframe|not-cell-local", "standardize_dataframe output is not the cell-by-cell standardisation of the "
                          "standard columns with everything else preserved", {**meta, "real": got, "model": a[1]})

    # ---- deprecated alias and argument errors
    small = pd.DataFrame({"CDR3B": ["ASSQ", None], "x": [1, 2]}, index=[4, 2])
    r_old = core.call_real(lambda: io.standardize_dataframe(df_old=small, suppress_warnings=True))
    r_new = core.call_real(lambda: io.standardize_dataframe(df=small, suppress_warnings=True))
    chk.case(nontrivial_key="df_old")
    if r_old[0] != "ok" or r_new[0] != "ok" or not r_old[1].equals(r_new[1]):
        chk.violation("C18|standardize_dataframe|df_old-alias", "standardize_dataframe(df_old=...) differs from standardize_dataframe(df=...)", {})
    for name, call in (("both-df-and-df_old", lambda: io.standardize_dataframe(df=small, df_old=small)), ("no-df", lambda: io.standardize_dataframe())):
        r = core.call_real(call)
        chk.case(nontrivial_key=name)
        if r != ("error", "ValueError"):
            chk.violation(f"C18|standardize_dataframe|{name}", f"standardize_dataframe({name}) gave {str(r)[:80]} instead of ValueError", {})

    # ---- multimerge: reference outer/inner join on unique keys
    for it in range(24 if not thorough else 200):
        nt = rng.randint(2, 5) if it >= 8 else rng.choice([4, 5])
        keys_all = [f"k{i}" for i in range(8)]
        dfs, suffixes = [], []
        for i in range(nt):
            ks = rng.sample(keys_all, rng.randint(1, 6))
            shape = rng.random()
            if i >= 1 and shape < 0.12:
                ks = []                                     # a table without rows still contributes its columns (and empties an inner join)
            if i >= 1 and 0.12 <= shape < 0.2:
                # a key-only table (no value columns) still contributes its keys
                dfs.append(pd.DataFrame({"key": ks}))
            else:
                dfs.append(pd.DataFrame({"key": pd.Series(ks, dtype=object), "val": pd.Series([rng.randint(0, 99) for _ in ks], dtype=float),
                                         f"x{i}": pd.Series([rng.random() if rng.random() < 0.8 else float("nan") for _ in ks], dtype=float)}))
            suffixes.append(f"s{i}")
        if rng.random() < 0.2:
            suffixes.append("unused")              # more suffixes than tables: zip() ignores the rest
        how = rng.choice(["outer", "inner", None, "left", "right"])
        if it < 8 and nt >= 4:
            how = ("left", "right")[it % 2]        # many tables with a one-sided join: the grouping of the pairwise merges matters here
        elif 8 <= it < 16:
            # every run: a call with an explicit join kind is followed by a call WITHOUT one (the default is the outer join, whatever came before)
            how = ("inner", None, "left", None, "right", None, "inner", None)[it - 8]
        mode = rng.choice(["column", "index", "suffix-column", "suffix-index"])
        if 16 <= it < 22:
            mode = "suffix-column"                 # every run: each form of `suffixes` (see below)
        elif it in (22, 23):
            mode = "suffix-index"                  # every run: suffixes with the key in the index (and a data column called "index")
        kw = {} if how is None else {"how": how}
        if mode.startswith("suffix") and (rng.random() < 0.35 or it in (20, 22)):
            # a data column that happens to be called "index" (what reset_index() leaves behind) is a data column like any other
            dfs = [d.rename(columns={"val": "index"}) for d in dfs]
        snap = [d.copy(deep=True) for d in dfs]
        if mode == "column":
            # distinct value column names so that no pandas suffixing is involved
            dfs2 = [d.rename(columns={"val": f"val{i}"}) for i, d in enumerate(dfs)]
            real = core.call_real(lambda: io.multimerge(dfs2, "key", **kw))
            named = [d.set_index("key") for d in dfs2]
        elif mode == "index":
            dfs2 = [d.rename(columns={"val": f"val{i}"}).set_index("key") for i, d in enumerate(dfs)]
            real = core.call_real(lambda: io.multimerge(dfs2, "index", **kw))
            named = dfs2
        elif mode == "suffix-column":
            # the suffixes as any iterable of names: a list, a tuple, the key view of a dict of tables, the dict itself, a generator
            sform = ("list", "keys", "tuple", "dict", "generator", "map")[it % 6]
            sdict = {s_: None for s_ in suffixes}
            sgiven = {"list": list(suffixes), "tuple": tuple(suffixes), "keys": sdict.keys(), "dict": sdict,
                      "generator": (s_ for s_ in suffixes), "map": map(str, suffixes)}[sform]
            chk.count("multimerge:suffixes-as-" + sform)
            real = core.call_real(lambda: io.multimerge(dfs, "key", suffixes=sgiven, **kw))
            named = [d.set_index("key").add_suffix("_" + s) for d, s in zip(dfs, suffixes)]
        else:
            dfs2 = [d.set_index("key") for d in dfs]
            real = core.call_real(lambda: io.multimerge(dfs2, "index", suffixes=suffixes, **kw))
            named = [d.add_suffix("_" + s) for d, s in zip(dfs2, suffixes)]
        meta = {"mode": mode, "how": how, "keys": [list(d["key"]) for d in dfs]}
        chk.case(nontrivial_key=("merge", json.dumps(meta, sort_keys=True)))
        chk.count("multimerge:" + mode)
        if any(not a.equals(b) for a, b in zip(dfs, snap)):
            chk.violation("C18|multimerge|mutates-input", "multimerge modified an input table", meta)
        # the tables actually handed over (index-keyed forms): values, column labels and index must be as before the call
        passed = dfs if mode == "suffix-column" else dfs2
        want_passed = (dfs if mode == "suffix-column" else
                       [d.rename(columns={"val": f"val{i}"}) for i, d in enumerate(snap)] if mode == "column" else
                       [d.rename(columns={"val": f"val{i}"}).set_index("key") for i, d in enumerate(snap)] if mode == "index" else
                       [d.set_index("key") for d in snap])
        if any(list(a.columns) != list(b.columns) or not a.equals(b) for a, b in zip(passed, want_passed)):
            chk.violation("C18|multimerge|mutates-passed-table", f"multimerge({mode}) changed a table it was given (values, column labels or index)",
                          {**meta, "columns_after": [list(a.columns) for a in passed]})
        if real[0] != "ok":
            chk.violation(f"C18|multimerge|{mode}|raises-{real[1]}", f"multimerge raised {real[1]}", meta)
            continue
        out = real[1]
        if "key" in out.columns:
            out = out.set_index("key")
        keysets = [set(d.index) for d in named]
        # reference join: union / intersection of the key sets; 'left' keeps the keys of the first table (every table's cells where present);
        # 'right' is checked against the modelled fold only
        want_keys = (set.union(*keysets) if how in (None, "outer") else set.intersection(*keysets) if how == "inner" else
                     keysets[0] if how == "left" else keysets[-1])
        ok = set(out.index) == want_keys and out.index.is_unique
        want_cols = [c for d in named for c in d.columns]
        ok = ok and sorted(out.columns) == sorted(want_cols)
        if ok and how != "right":
            for d in named:
                for k in want_keys:
                    for c in d.columns:
                        v = out.loc[k, c]
                        if k in d.index:
                            w = d.loc[k, c]
                            ok = ok and (v == w or (isinstance(w, float) and math.isnan(w) and isinstance(v, float) and math.isnan(v)))
                        else:
                            ok = ok and (isinstance(v, float) and math.isnan(v))
        if not ok:
            chk.violation(f"C18|multimerge|{mode}|differs", f"multimerge({mode}, how={how}) is not the {how or 'outer'} join of all tables on the key",
                          {**meta, "real_index": [str(i) for i in out.index], "real_columns": list(out.columns)})
            continue
        # the Lean model (C18_multimerge_*): same join, compared as key -> {column: cell}
        def cell(v):
            return None if (v is None or (isinstance(v, float) and math.isnan(v))) else repr(float(v))
        if mode.startswith("suffix"):
            src = [d.set_index("key") for d in dfs]
            sfx = suffixes
        else:
            src = named
            sfx = None
        op = {"op": "multimerge", "outer": how in (None, "outer"), "suffixes": sfx,
              "tables": [{"cols": list(d.columns), "rows": [[str(k), [cell(v) for v in d.loc[k].tolist()]] for k in d.index]} for d in src]}
        # the fold model (the code's own shape, every `how`); for outer / inner also the direct description (equal by C18_multimerge_fold_*)
        a_fold, a_direct = core.run_driver([{**op, "how": how or "outer"}, op])
        if a_fold[0] != "ok" or a_direct[0] != "ok":
            chk.model_error(f"multimerge model op failed: {a_fold} {a_direct}")
            continue
        if how in (None, "outer", "inner") and (sorted(a_fold[1]["cols"]) != sorted(a_direct[1]["cols"]) or
                                               {k: c for k, c in a_fold[1]["rows"]} != {k: c for k, c in a_direct[1]["rows"]}):
            chk.model_error(f"multimerge: fold model and direct model disagree on {json.dumps(op)[:400]}")
            continue
        a = a_fold
        mcols = a[1]["cols"]
        model_map = {k: dict(zip(mcols, cells)) for k, cells in a[1]["rows"]}
        real_map = {str(k): {c: cell(out.loc[k, c]) for c in out.columns} for k in out.index}
        if sorted(mcols) != sorted(out.columns) or model_map != real_map:
            chk.violation(f"C18|multimerge|{mode}|vs-model", f"multimerge({mode}, how={how}) differs from the modelled join",
                          {**meta, "real": str(real_map)[:1500], "model": str(model_map)[:1500]})
        elif mode.startswith("suffix") or mode == "index":
            # column ORDER: the tables' blocks side by side (for on=<column> pandas keeps the key column first; not compared)
            if list(out.columns) != mcols:
                chk.violation(f"C18|multimerge|{mode}|column-order", "the merged columns are not the tables' columns side by side",
                              {**meta, "real": list(out.columns), "model": mcols})

    # ---- multimerge: tables that share a data column name and no suffixes given.  pandas.merge then tells the clashing columns apart with
    # its own _x / _y (not modelled; the names are not compared) -- the call must still return the join: same keys, the tables' columns
    # side by side (compared by position) with each table's cells at its keys
    for nt in (2, 3):
        for how in (None, "inner", "left"):
            for keymode in ("index", "column"):
                keysets = [["a", "b", "c", "d"], ["c", "a", "e"], ["f", "a", "c", "b"]][:nt]
                tabs = [pd.DataFrame({"key": ks, "count": [float(10 * i + j) for j in range(len(ks))],
                                      "freq": [float(100 * i + j) / 7 for j in range(len(ks))]}) for i, ks in enumerate(keysets)]
                kw = {} if how is None else {"how": how}
                given = [t.set_index("key") for t in tabs] if keymode == "index" else tabs
                real = core.call_real(lambda: io.multimerge(given, "index" if keymode == "index" else "key", **kw))
                meta = {"mode": "shared-column-names-" + keymode, "how": how, "tables": nt, "keys": keysets}
                chk.case(nontrivial_key=("merge-shared", json.dumps(meta, sort_keys=True)))
                chk.count("multimerge:shared-column-names")
                if real[0] != "ok":
                    chk.violation(f"C18|multimerge|shared-column-names|raises-{real[1]}",
                                  f"multimerge raised {real[1]} on tables that share a data column name (no suffixes given)", meta)
                    continue
                out = real[1]
                if keymode == "column":
                    out = out.set_index("key") if isinstance(out, pd.DataFrame) and "key" in out.columns else out
                want_keys = set(keysets[0])
                for ks in keysets[1:]:
                    want_keys = (want_keys | set(ks)) if how is None else (want_keys & set(ks)) if how == "inner" else want_keys
                bad = None
                if not isinstance(out, pd.DataFrame) or out.shape[1] != 2 * nt:
                    bad = f"the result has {getattr(out, 'shape', None)} (wanted {2 * nt} data columns)"
                elif sorted(map(str, out.index)) != sorted(want_keys):
                    bad = f"keys {sorted(map(str, out.index))} instead of {sorted(want_keys)}"
                else:
                    for i, t in enumerate(tabs):
                        ti = t.set_index("key")
                        for j in range(2):
                            col = out.iloc[:, 2 * i + j]
                            for k in want_keys:
                                w = ti.iloc[:, j].get(k, float("nan"))
                                g = col.loc[k]
                                if not ((w != w and g != g) or w == g):
                                    bad = f"table {i} column {j} at key {k}: {g!r} instead of {w!r}"
                if bad:
                    chk.violation("C18|multimerge|shared-column-names|differs",
                                  f"multimerge(how={how}) of tables sharing data column names is not the join: {bad}", meta)


def replay(path):
    r = json.load(open(path))
    print(json.dumps(r, indent=1)[:3000])
    return 0
