"""C16 — richness and overlap estimators follow their closed forms for every count vector."""
import itertools
import json
import math
import warnings
from fractions import Fraction

import numpy as np
import pandas as pd

from harness import core

TRUSTED = [
    "Lean 4.33.0 kernel; axioms propext, Classical.choice, Quot.sound only (audited per theorem)",
    "NumPy float arithmetic modelled over Q: the real functions are run on fractions.Fraction object arrays (exact) and on ints "
    "(float, 1e-12 relative)",
    "pandas dropna / set() modelled by dropNA / dedup; collections are mapped to strings injectively by the harness",
]


def fr(v):
    return np.array([Fraction(int(x)) for x in v], dtype=object)


def same(real, model, tol=1e-12):
    """real: ('ok', number|nan) ; model: ('ok', 'p/q' | None)"""
    if real[0] != "ok" or model[0] != "ok":
        return real[0] == model[0] == "error"
    r, m = real[1], model[1]
    if m is None:
        return isinstance(r, float) and math.isnan(r)
    if isinstance(r, float) and math.isnan(r):
        return False
    want = Fraction(m)
    if isinstance(r, Fraction):
        return r == want
    return abs(float(r) - float(want)) <= tol * max(1.0, abs(float(want)))


def run(chk):
    import pyrepseq.stats as st
    warnings.simplefilter("ignore")
    chk.trusted_base = TRUSTED
    chk.assumptions = ["frequency-of-frequency vectors have length >= 1 and non-negative integer entries"]
    chk.rule = ("every frequency-of-frequency vector of length 1-4 with entries 0..6 (exhaustive, as list and as array, exact via Fraction) "
                "plus random long vectors; collection pairs as lists / sets / Series with duplicates and missing values; "
                "non-trivial = distinct vector with f1 > 0, or collection pair with a non-empty intersection")
    chk.build_and_audit()
    rng = chk.rng
    thorough = chk.tier == "thorough"
    vecs = []
    top = 6 if not thorough else 9
    for L in (1, 2, 3, 4):
        for v in itertools.product(range(0, top + 1), repeat=L):
            if L >= 3 and not thorough and rng.random() > 0.25:
                continue
            vecs.append(list(v))
    for _ in range(50 if not thorough else 500):
        vecs.append([rng.randint(0, 200) for _ in range(rng.randint(2, 12))])
    for v in ([60000, 1500, 40, 3], [3000000, 2000001, 5], [100000, 1], [70000, 70000], [2 ** 31, 3]):
        vecs.append(v)
    chk.exhaustive = True
    ops = []
    for v in vecs:
        sv = [str(x) for x in v]
        ops += [{"op": "chao1", "f": sv}, {"op": "var_chao", "f": sv}, {"op": "chao2", "f": sv}]
    ans = core.run_driver_parallel(ops)
    for i, v in enumerate(vecs):
        m1, mv, m2 = ans[3 * i], ans[3 * i + 1], ans[3 * i + 2]
        chk.case(sample={"counts": v} if i % 300 == 0 else None, nontrivial_key=tuple(v) if v[0] > 0 else None)
        for name, model, calls in (
            ("chao1", m1, [lambda: st.chao1(fr(v)), lambda: st.chao1(list(v)), lambda: st.chao1(np.array(v))]),
            ("var_chao1", mv, [lambda: st.var_chao1(fr(v)), lambda: st.var_chao1(list(v)), lambda: st.var_chao1(np.array(v))]),
            ("chao2", m2, [lambda: st.chao2(fr(v), 5), lambda: st.chao2(list(v), 5), lambda: st.chao2(np.array(v), 5)]),
            ("var_chao2", mv, [lambda: st.var_chao2(fr(v), 5), lambda: st.var_chao2(list(v), 5), lambda: st.var_chao2(np.array(v), 5)]),
        ):
            for kind, call in zip(("Fraction", "list", "array"), calls):
                real = core.call_real(call)
                chk.count(f"{name}")
                if not same(real, model):
                    f2 = v[1] if len(v) > 1 else None
                    cls = "f2-absent" if f2 is None else ("f2=0" if f2 == 0 else "f2>0")
                    sig = f"C16|{name}|{cls}|" + (f"raises-{real[1]}" if real[0] == "error" else "differs")
                    chk.violation(sig, f"{name}({v}) [{kind}] = {str(real)[:80]} but the closed form gives {model}",
                                  {"fn": name, "counts": v, "kind": kind, "real": str(real), "model": str(model)})
                # never below observed richness (defined estimates)
                if name in ("chao1", "chao2") and real[0] == "ok" and kind == "Fraction" and isinstance(real[1], Fraction):
                    if real[1] < sum(v):
                        chk.violation(f"C16|{name}|below-observed", f"{name}({v}) = {real[1]} < observed richness {sum(v)}",
                                      {"fn": name, "counts": v})
    # ---- histories: a Series edited in place between two calls must be read again
    for fn in ("jaccard_index", "overlap", "overlap_coefficient"):
        s1 = pd.Series(["a", "b", "c", None], dtype=object)
        s2 = pd.Series(["b", "c", "d"], dtype=object)
        r1 = core.call_real(lambda: getattr(st, fn)(s1, s2))
        s1.iloc[0] = "d"
        s2.iloc[0] = None
        r2 = core.call_real(lambda: getattr(st, fn)(s1, s2))
        A, B = {"d", "b", "c"}, {"c", "d"}
        want = {"jaccard_index": len(A & B) / len(A | B), "overlap": len(A & B), "overlap_coefficient": len(A & B) / min(len(A), len(B))}[fn]
        chk.case(nontrivial_key=("series-history", fn))
        if r2 != ("ok", want):
            chk.violation(f"C16|{fn}|stale-after-in-place-edit", f"{fn} on a Series edited in place after an earlier call = {r2}, set algebra gives {want}",
                          {"fn": fn, "first_call": str(r1)})
    # ---- any hashable elements: paired clonotypes as tuples, integers beside digit strings (1 and "1" are different elements)
    for _ in range(30 if not thorough else 300):
        kind = rng.choice(["tuples", "int-and-str", "ints"])
        if kind == "tuples":
            uni = [(a_, b_) for a_ in ("CA", "CB", "CC") for b_ in ("CX", "CY")]
        elif kind == "int-and-str":
            uni = [1, "1", 2, "2", 3, "a"]
        else:
            uni = [1, 2, 3, 10, 11]
        A = [rng.choice(uni) for _ in range(rng.randint(1, 7))]
        B = [rng.choice(uni) for _ in range(rng.randint(1, 7))]
        sa, sb = set(A), set(B)
        for cname, ca, cb in (("list", A, B), ("set", set(A), set(B)), ("tuple", tuple(A), tuple(B))) + ((("series", pd.Series(A, dtype=object), pd.Series(B, dtype=object)),) if kind != "tuples" or True else ()):
            for fn in ("jaccard_index", "overlap", "overlap_coefficient"):
                want = {"jaccard_index": len(sa & sb) / len(sa | sb), "overlap": len(sa & sb), "overlap_coefficient": len(sa & sb) / min(len(sa), len(sb))}[fn]
                r_ = core.call_real(lambda: getattr(st, fn)(ca, cb))
                chk.case(nontrivial_key=("hashable", kind, cname, fn, str(A), str(B)) if sa & sb else None)
                chk.count(f"{fn}[{kind}]")
                if r_ != ("ok", want):
                    chk.violation(f"C16|{fn}|{kind}-{cname}|" + (f"raises-{r_[1]}" if r_[0] == "error" else "differs"),
                                  f"{fn} on {kind} elements ({cname}) = {str(r_)[:80]} but set algebra on the elements gives {want}",
                                  {"fn": fn, "A": [repr(x) for x in A], "B": [repr(x) for x in B], "container": cname})
    # ---- overlap measures
    import pyrepseq as _prs
    ops, checks = [], []
    universe = ["a", "b", "c", "dd", "", "E", "f g"]
    for _ in range(150 if not thorough else 1500):
        A = [rng.choice(universe) for _ in range(rng.randint(0, 7))]
        B = [rng.choice(universe) for _ in range(rng.randint(0, 7))]
        An = [x if rng.random() > 0.15 else None for x in A]
        Bn = [x if rng.random() > 0.15 else None for x in B]
        nanobj = lambda: rng.choice([float("nan"), np.float64("nan"), float("inf") - float("inf"), None, np.nan])  # noqa
        Af = [x if x is not None else nanobj() for x in An]
        Bf = [x if x is not None else nanobj() for x in Bn]
        variants = [("list-nan-objects", Af, Bf, An, Bn), ("tuple-nan-objects", tuple(Af), tuple(Bf), An, Bn),
                    ("ndarray-nan", np.array(Af, dtype=object), np.array(Bf, dtype=object), An, Bn),
                    ("list", A, B, A, B), ("set", set(A), set(B), A, B), ("series", pd.Series(A, dtype=object), pd.Series(B, dtype=object), A, B),
                    ("series-na", pd.Series(An, dtype=object), pd.Series(Bn, dtype=object), An, Bn),
                    # one Series (with missing values) against a plain list / set, in both orders: each Series drops ITS missing values
                    ("series-na-vs-list", pd.Series(An, dtype=object), list(B), An, B), ("list-vs-series-na", list(A), pd.Series(Bn, dtype=object), A, Bn),
                    ("series-na-vs-set", pd.Series(An, dtype=object), set(B), An, B),
                    ("list-na", An, Bn, An, Bn), ("tuple", tuple(A), tuple(B), A, B)]
        for cname, ca, cb, ma, mb in variants:
            for fn in ("jaccard_index", "overlap", "overlap_coefficient"):
                if fn == "jaccard_index" and cname in ("list-na", "list-nan-objects", "tuple-nan-objects", "ndarray-nan"):
                    continue        # documented: missing values are dropped inside Series only
                if fn != "overlap" and (not [x for x in ma if x is not None] or not [x for x in mb if x is not None]) and fn == "jaccard_index":
                    if not [x for x in ma if x is not None] and not [x for x in mb if x is not None]:
                        continue    # ratio forms: non-empty collections
                opn = {"jaccard_index": "jaccard", "overlap": "overlap", "overlap_coefficient": "overlap_coefficient"}[fn]
                ops.append({"op": opn, "a": ma, "b": mb})
                # (the functions are reached as the package exports them - `pyrepseq.overlap` - for the containers with missing
                #  values, and through pyrepseq.stats for the others)
                ns_ = _prs if ("na" in cname or "nan" in cname) else st
                checks.append((fn, cname, ma, mb, core.call_real(lambda fn=fn, ca=ca, cb=cb, ns_=ns_: getattr(ns_, fn)(ca, cb)),
                               core.call_real(lambda fn=fn, ca=ca, cb=cb, ns_=ns_: getattr(ns_, fn)(cb, ca))))
                # the SAME object on both sides (the diagonal of a pairwise overlap table): missing values are dropped there too
                if [x for x in ma if x is not None] and rng.random() < 0.35:
                    ops.append({"op": opn, "a": ma, "b": ma})
                    same_obj = core.call_real(lambda fn=fn, ca=ca: getattr(st, fn)(ca, ca))
                    checks.append((fn, cname + "-same-object", ma, ma, same_obj, same_obj))
    ans = core.run_driver_parallel(ops)
    for (fn, cname, ma, mb, real, real_swapped), a in zip(checks, ans):
        inter = bool({x for x in ma if x is not None} & {x for x in mb if x is not None})
        chk.case(nontrivial_key=(fn, cname, str(ma), str(mb)) if inter else None)
        chk.count(f"{fn}[{cname}]")
        model = a
        ok = same(real, model) if not (model[0] == "ok" and isinstance(model[1], int)) else (real == ("ok", model[1]))
        if not ok:
            sig = f"C16|{fn}|{cname}|" + (f"raises-{real[1]}" if real[0] == "error" else "differs")
            chk.violation(sig, f"{fn}({cname}) = {str(real)[:80]} but set algebra gives {model}",
                          {"fn": fn, "container": cname, "A": ma, "B": mb, "real": str(real), "model": str(model)})
        elif real[0] == "ok" and real_swapped[0] == "ok":
            r1, r2 = real[1], real_swapped[1]
            if not ((isinstance(r1, float) and math.isnan(r1) and isinstance(r2, float) and math.isnan(r2)) or r1 == r2):
                chk.violation(f"C16|{fn}|asymmetric", f"{fn} is not symmetric: {r1} vs {r2}", {"fn": fn, "A": ma, "B": mb})


def replay(path):
    import pyrepseq.stats as st
    r = json.load(open(path))
    print(json.dumps(r, indent=1)[:3000])
    if "counts" in r and r.get("fn") in ("chao1", "var_chao1", "chao2", "var_chao2"):
        v = r["counts"]
        args = (fr(v),) if "2" not in r["fn"] else (fr(v), 5)
        print("real now:", core.call_real(lambda: getattr(st, r["fn"])(*args)), " model:", r.get("model"))
    return 0
