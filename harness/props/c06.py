"""C06 — pc and varpc_n are unbiased under multinomial sampling."""
import itertools
import json
import math
from fractions import Fraction

import numpy as np

from harness import core, gen

TRUSTED = [
    "Lean 4.33.0 kernel; axioms propext, Classical.choice, Quot.sound only (audited per theorem)",
    "expectation = finite sum over the product space Fin N -> Fin K with weight prod p(x i); p rational (the identities are polynomial, so they hold over any field)",
    "Python float arithmetic is modelled over Q: the real functions are run on object arrays of fractions.Fraction (exact) and on ints (float, tolerance 1e-9)",
    "sqrt in stdpc_n / stdpc is not modelled: checked numerically against varpc_n",
    "correspondence check (harness + compiled driver): differential, bounded by its generators",
]


def frac_arr(n):
    return np.array([Fraction(int(c)) for c in n], dtype=object)


def count_vectors(maxN, maxlen=5):
    """every non-increasing count vector with sum <= maxN (plus versions with zeros / shuffled)"""
    out = []
    for N in range(0, maxN + 1):
        for p in gen.partitions(N):
            if len(p) <= maxlen or N <= 8:
                out.append(list(p))
    return out


def multinomial_expectation(N, p, f):
    """exact E[f(counts)] for counts ~ Multinomial(N, p)"""
    K = len(p)
    tot = Fraction(0)
    for comp in itertools.product(range(N + 1), repeat=K):
        if sum(comp) != N:
            continue
        coef = math.factorial(N)
        pr = Fraction(1)
        for c, pk in zip(comp, p):
            coef //= math.factorial(c)
            pr *= pk ** c
        tot += coef * pr * f(comp)
    return tot


def run(chk):
    import pyrepseq.stats as st
    chk.trusted_base = TRUSTED
    chk.assumptions = ["N >= 2 for pc, N >= 4 for varpc_n (guards proved sharp in Lean)"]
    chk.rule = ("every count vector (integer partition) with N <= bound, with zeros appended and shuffled, plus random vectors to "
                "N = 10^4: pc_n / varpc_n / stdpc_n / pc / stdpc against the model in exact rational arithmetic; oracle: exact "
                "multinomial expectation of the REAL functions on rational probability grids; non-trivial = distinct count vector "
                "with at least one repeated element")
    chk.build_and_audit()
    rng = chk.rng
    thorough = chk.tier == "thorough"
    vecs = count_vectors(14 if not thorough else 20)
    extra = []
    for v in vecs[:: 7]:
        w = list(v) + [0] * rng.randint(1, 2)
        rng.shuffle(w)
        extra.append(w)
    for _ in range(40 if not thorough else 400):
        extra.append([rng.randint(0, rng.choice([3, 30, 3000])) for _ in range(rng.randint(1, 12))])
    # large diverse samples: many clones of a few cells each - the variance estimate is tiny (1e-12) but positive, and its
    # square root is a perfectly ordinary number (no snapping to 0 by an absolute tolerance)
    for _ in range(3 if not thorough else 12):
        K = rng.choice([1500, 3000])
        extra.append([rng.choice([1, 2, 3, 5, 7, 8, 9, 11, 13, 20]) for _ in range(K)])
    vecs = vecs + extra
    chk.exhaustive = True

    ops = []
    for n in vecs:
        ops.append({"op": "pc_n", "n": n})
        ops.append({"op": "varpc_n", "n": n})
    ans = core.run_driver_parallel(ops)
    first_bad = None
    for i, n in enumerate(vecs):
        N = sum(n)
        m_pc, m_var = ans[2 * i], ans[2 * i + 1]
        chk.case(sample={"n": n} if i % 97 == 0 else None, nontrivial_key=tuple(n) if any(c > 1 for c in n) else None)
        chk.count(f"N<=4" if N <= 4 else ("N<=14" if N <= 14 else "N>14"))
        # one array object serves all float calls for this count vector (an estimate and its error bar come from the same counts):
        # it must come back unchanged
        shared = np.array(n)
        # exact path
        if N >= 2:
            r = core.call_real(lambda: st.pc_n(frac_arr(n)))
            want = Fraction(m_pc[1])
            if r != ("ok", want):
                first_bad = first_bad or ("pc_n", n, str(r), str(want))
            rf = core.call_real(lambda: float(st.pc_n(shared)))
            if rf[0] != "ok" or rf[1] != float(want):
                first_bad = first_bad or ("pc_n(float)", n, str(rf), str(float(want)))
        if N >= 4:
            r = core.call_real(lambda: st.varpc_n(frac_arr(n)))
            want = Fraction(m_var[1])
            if r != ("ok", want):
                first_bad = first_bad or ("varpc_n", n, str(r), str(want))
            rf = core.call_real(lambda: float(st.varpc_n(shared)))
            if rf[0] != "ok" or abs(rf[1] - float(want)) > 1e-9 * max(1.0, abs(float(want))):
                first_bad = first_bad or ("varpc_n(float)", n, str(rf), str(float(want)))
            if want >= 0:
                rs = core.call_real(lambda: float(st.stdpc_n(shared)))
                # (when the exact variance estimate is 0 the float expression may round to -1e-16 and its root to nan: rounding, not claimed)
                isnan = rs[0] == "ok" and math.isnan(rs[1])
                if rs[0] != "ok" or (isnan and want > 1e-12) or (not isnan and abs(rs[1] ** 2 - float(want)) > 1e-9 * max(1e-9, abs(float(want))) + 1e-15):
                    first_bad = first_bad or ("stdpc_n", n, str(rs), f"sqrt({float(want)})")
                rs2 = core.call_real(lambda: float(st.stdpc([f"v{i}" for i, c in enumerate(n) for _ in range(c)])))
                isnan2 = rs2[0] == "ok" and math.isnan(rs2[1])
                if rs2[0] != "ok" or (isnan2 and want > 1e-12) or (not isnan2 and abs(rs2[1] ** 2 - float(want)) > 1e-9 * max(1e-9, abs(float(want))) + 1e-15):
                    first_bad = first_bad or ("stdpc", n, str(rs2), f"sqrt({float(want)})")
        if shared.tolist() != list(n):
            chk.violation("C06|pc_n|overwrites-counts", f"pc_n / varpc_n / stdpc_n changed the count array they were given: {list(n)} -> {shared.tolist()} "
                          "(the variance estimate computed next from the same array is no longer that of the sample)", {"n": list(n), "after": shared.tolist()})
            break
    if first_bad and first_bad[0] in ("stdpc_n", "stdpc"):
        # the property states it outright: stdpc / stdpc_n return the square root of the variance estimate for the same counts
        chk.violation(f"C06|{first_bad[0]}|not-sqrt-of-varpc", f"{first_bad[0]}({first_bad[1]}) = {first_bad[2]} is not {first_bad[3]}",
                      {"n": first_bad[1], "real": first_bad[2], "want": first_bad[3]})
    elif first_bad:
        chk.broken_obligations.append(f"corr:{first_bad[0]}~model differs on n={first_bad[1]}: real={first_bad[2][:120]} model={first_bad[3][:120]}")

    # pc / stdpc on samples (counting wrappers)
    ops, reals, metas = [], [], []
    for _ in range(60 if not thorough else 600):
        K = rng.randint(1, 6)
        N = rng.randint(2, 30)
        xs = [rng.choice("ABCDEFG"[:K]) * rng.randint(1, 2) for _ in range(N)]
        ys = [rng.choice("ABCDEFG"[:K]) * rng.randint(1, 2) for _ in range(rng.randint(1, 20))]
        if _ % 6 == 5:
            # very unequal sample sizes, the larger one holding elements the smaller one lacks
            xs = [rng.choice("ABCDEFG") for _i in range(rng.randint(40, 90))]
            ys = [rng.choice("AB") for _i in range(rng.randint(1, 4))]
            N = len(xs)
            if _ % 12 == 5:
                xs, ys = ys + ys + ["A", "A"], xs
                N = len(xs)
        ops += [{"op": "pc1", "xs": xs}, {"op": "pc2", "as": xs, "bs": ys}, {"op": "counts", "xs": xs}]
        reals.append((core.call_real(lambda: float(st.pc(xs))), core.call_real(lambda: float(st.pc(xs, ys))),
                      core.call_real(lambda: float(st.stdpc(xs)) if N >= 4 else None)))
        metas.append((xs, ys))
        # the same samples with TUPLE-valued elements (paired-chain clonotypes held in a Series): same counts, same estimates
        import pandas as _pdt
        tx, ty = _pdt.Series([(x, len(x)) for x in xs]), _pdt.Series([(y, len(y)) for y in ys])
        rt = (core.call_real(lambda: float(st.pc(tx))), core.call_real(lambda: float(st.pc(tx, ty))),
              core.call_real(lambda: float(st.stdpc(tx)) if N >= 4 else None))
        chk.count("sample:series-of-tuples")
        same_ = lambda a_, b_: a_ == b_ or (a_[0] == b_[0] == "ok" and a_[1] is not None and b_[1] is not None and (math.isnan(a_[1]) and math.isnan(b_[1]) or abs(a_[1] - b_[1]) <= 1e-12))  # noqa
        if not all(same_(a_, b_) for a_, b_ in zip(rt, reals[-1])):
            chk.violation("C06|series-of-tuples|differs", "pc / stdpc of a Series whose elements are tuples differ from the estimates for the same sample "
                          "with string elements (the counts are the same)", {"xs": xs, "ys": ys, "tuples": str(rt), "strings": str(reals[-1])})
    ans = core.run_driver_parallel(ops)
    for i, ((r1, r2, r3), (xs, ys)) in enumerate(zip(reals, metas)):
        a1, a2, a3 = ans[3 * i], ans[3 * i + 1], ans[3 * i + 2]
        chk.case(nontrivial_key=("sample", tuple(xs), tuple(ys)))
        w1, w2 = float(Fraction(a1[1])), float(Fraction(a2[1]))
        if r1 != ("ok", w1) or r2 != ("ok", w2):
            chk.violation("C06|pc|not-the-pair-fraction", "pc differs on this sample from the pair-counting estimator that the unbiasedness theorems "
                          f"are proved for (real one-sample {r1}, two-sample {r2}; proved estimator {w1}, {w2})", {"xs": xs, "ys": ys})
            break
        if r3[0] == "ok" and r3[1] is not None and not math.isnan(r3[1]):
            want = core.call_real(lambda: float(st.stdpc_n(np.array(a3[1]))))
            if want[0] == "ok" and not math.isnan(want[1]) and abs(want[1] - r3[1]) > 1e-12:
                chk.broken_obligations.append(f"corr:stdpc~stdpc_n(counts) differs on xs={xs}")
                break

    # stdpc_joint = stdpc of the rows' joined feature labels (same counts, same estimator)
    import pandas as _pd
    for _ in range(10 if not thorough else 80):
        n_ = rng.randint(4, 14)
        # (a missing cell is one more value of its column - unpaired reads with only one chain are rows like any other)
        dfj = _pd.DataFrame({"a": [rng.choice(["CA", "CB", "C", None]) for _ in range(n_)], "b": [rng.choice(["x", "y", None]) for _ in range(n_)],
                            "c": [rng.choice(["1", "2"]) for _ in range(n_)]}, index=rng.sample(range(50), n_))
        cols_ = rng.choice([["a", "b"], ["a", "b", "c"], ["b", "a"]])
        if _ % 3 == 0:
            # columns whose names are also names of DataFrame methods / helper columns (count, size, index)
            ren_ = {"a": "count", "b": "size", "c": "index"}
            dfj = dfj.rename(columns=ren_)
            cols_ = [ren_[c_] for c_ in cols_]
        gap = rng.choice(["_", "|"])
        joined = [gap.join("" if dfj.iloc[i][c] is None or dfj.iloc[i][c] != dfj.iloc[i][c] else str(dfj.iloc[i][c]) for c in cols_) for i in range(n_)]
        r1 = core.call_real(lambda: float(st.stdpc_joint(dfj, cols_, gap_token=gap)) if gap != "_" else float(st.stdpc_joint(dfj, cols_)))
        r2 = core.call_real(lambda: float(st.stdpc(joined)))
        chk.case(nontrivial_key=("stdpc_joint", tuple(joined)))
        chk.count("stdpc_joint")
        same = r1 == r2 or (r1[0] == r2[0] == "ok" and math.isnan(r1[1]) and math.isnan(r2[1]))
        if not same:
            chk.violation("C06|stdpc_joint|differs", f"stdpc_joint(table, {cols_}) = {r1} but stdpc of the joined row labels = {r2}", {"rows": joined, "columns": cols_})
    # ---- property oracle on the REAL functions: exact expectations on rational grids
    grids = [(2, [Fraction(1, 3), Fraction(2, 3)]), (2, [Fraction(1, 2), Fraction(1, 2)]),
             (3, [Fraction(1, 2), Fraction(1, 3), Fraction(1, 6)]), (3, [Fraction(1, 5), Fraction(1, 5), Fraction(3, 5)]),
             (4, [Fraction(1, 10), Fraction(2, 10), Fraction(3, 10), Fraction(4, 10)])]
    Ns = [2, 3, 4, 5, 6, 7] if not thorough else [2, 3, 4, 5, 6, 7, 8, 9, 10]
    for K, p in grids:
        for N in Ns:
            if K == 4 and N > (6 if not thorough else 8):
                continue
            S2 = sum(x ** 2 for x in p)
            real_pc = lambda comp: st.pc_n(frac_arr(comp))  # noqa
            try:
                Epc = multinomial_expectation(N, p, real_pc)
                chk.case(nontrivial_key=("E", N, tuple(p)))
                chk.count("oracle:E[pc]")
                if Epc != S2:
                    chk.violation("C06|pc_n|biased", f"E[pc_n] = {Epc} != sum p^2 = {S2} for N={N}, p={p}",
                                  {"N": N, "p": [str(x) for x in p], "E_pc": str(Epc), "sum_p2": str(S2)})
                if N >= 4:
                    Epc2 = multinomial_expectation(N, p, lambda comp: real_pc(comp) ** 2)
                    Evar = multinomial_expectation(N, p, lambda comp: st.varpc_n(frac_arr(comp)))
                    chk.count("oracle:E[varpc_n]")
                    if Evar != Epc2 - S2 ** 2:
                        chk.violation("C06|varpc_n|biased", f"E[varpc_n] = {Evar} != Var(pc) = {Epc2 - S2 ** 2} for N={N}, p={p}",
                                      {"N": N, "p": [str(x) for x in p], "E_var": str(Evar), "Var_pc": str(Epc2 - S2 ** 2)})
            except Exception as e:  # noqa
                chk.violation(f"C06|oracle|raises-{core.err_name(e)}", f"real pc_n/varpc_n raised {e!r} in exact arithmetic for N={N}",
                              {"N": N, "p": [str(x) for x in p]})
    # categories that are table ROWS whose column texts collide when concatenated: E[pc(table)] = sum p^2
    import pandas as pd
    cats = [("CAS", "SF"), ("CASS", "F"), ("CA", "SSF")]
    pr = [Fraction(1, 2), Fraction(1, 3), Fraction(1, 6)]
    cats_concat = cats
    for N, colnames in ((2, ["CDR3A", "CDR3B"]), (3, ["CDR3A", "CDR3B"]), (3, ["cdr3", "cdr3"]), (2, ["v", "v"]), (3, ["id", "x"]), (3, ["nl", "x"])):   # (also two columns sharing one label)
        # with a shared label the categories differ in the FIRST of the same-named columns only; numeric ids that differ in the 7th digit
        cats = (cats_concat if colnames[0] != colnames[1] else [("CA", "X"), ("CB", "X"), ("CA", "Y")]) if colnames[0] != "id" else \
            [(1234567, 0.5), (1234568, 0.5), (1234569, 0.5)]
        if colnames[0] == "nl":        # cells holding line-breaking characters are cells like any other
            cats = [("CA\nSS", "x"), ("CA", "x"), ("SS", "x")]
        tot = Fraction(0)
        for xs in itertools.product(range(3), repeat=N):
            w = Fraction(1)
            for i in xs:
                w *= pr[i]
            df = pd.DataFrame([cats[i] for i in xs])
            df.columns = colnames
            tot += w * Fraction(float(st.pc(df))).limit_denominator(10 ** 6)
        chk.case(nontrivial_key=("E-rows", N, tuple(colnames)))
        if tot != sum(x ** 2 for x in pr):
            chk.violation("C06|pc-table|biased", f"E[pc(table)] = {tot} != sum p^2 = {sum(x ** 2 for x in pr)} for row-valued categories, N={N}, columns {colnames}",
                          {"N": N, "categories": cats, "columns": colnames})
    # two-sample: E[pc(x, y)] = sum p q, exact enumeration over small samples
    # (category labels: single letters; labels of different widths where one is a prefix of another - as lists and as
    # NumPy arrays whose dtypes then differ between the samples; integer vs float ids)
    label_sets = [("letters", lambda K: list("ABCDEF"[:K]), list), ("prefix-widths", lambda K: ["CAS", "CASS", "CASSLG", "CASSL"][:K], list),
                  ("prefix-widths-ndarray", lambda K: ["CAS", "CASS", "CASSLG", "CASSL"][:K], np.array),
                  # each sample converted to a pandas categorical on its own: the category lists (and codes) of the two samples differ
                  ("categorical-series", lambda K: ["CAS", "CAT", "CQ", "CW"][:K], lambda l: pd.Series(l).astype("category"))]
    for gi, ((K, p), (_, q)) in enumerate([(grids[0], grids[1]), (grids[2], grids[3])] * 4):
        lname, mk, cont = label_sets[gi // 2]
        for N1, N2 in [(1, 1), (2, 3), (3, 2)] + ([(1, 9), (10, 1)] if gi == 0 else []):      # (also very unequal sample sizes)
            tot = Fraction(0)
            bad_val = None
            letters = mk(K)
            for xs in itertools.product(range(K), repeat=N1):
                for ys in itertools.product(range(K), repeat=N2):
                    w = Fraction(1)
                    for i in xs:
                        w *= p[i]
                    for i in ys:
                        w *= q[i]
                    val = st.pc(cont([letters[i] for i in xs]), cont([letters[i] for i in ys]))
                    if not math.isfinite(float(val)):
                        bad_val = bad_val or ([letters[i] for i in xs], [letters[i] for i in ys], float(val))
                        continue
                    tot += w * Fraction(float(val)).limit_denominator(10 ** 6)
            if bad_val:
                chk.violation("C06|pc2|not-finite", f"pc(a, b) = {bad_val[2]} for two non-empty samples", {"a": bad_val[0], "b": bad_val[1]})
                continue
            want = sum(a * b for a, b in zip(p, q))
            chk.case(nontrivial_key=("E2", lname, N1, N2, tuple(p), tuple(q)))
            chk.count("oracle:E[pc(a,b)]")
            if tot != want:
                chk.violation("C06|pc2|biased", f"E[pc(a,b)] = {tot} != sum p q = {want} for N1={N1}, N2={N2}, category labels {letters} ({lname})",
                              {"N1": N1, "N2": N2, "p": [str(x) for x in p], "q": [str(x) for x in q], "labels": letters, "container": lname})


def replay(path):
    import pyrepseq.stats as st
    r = json.load(open(path))
    print(json.dumps(r, indent=1)[:3000])
    if "N" in r and "p" in r:
        p = [Fraction(x) for x in r["p"]]
        N = r["N"]
        S2 = sum(x ** 2 for x in p)
        Epc = multinomial_expectation(N, p, lambda comp: st.pc_n(frac_arr(comp)))
        print("E[pc_n] =", Epc, " sum p^2 =", S2)
        ok = Epc == S2
        if N >= 4:
            Epc2 = multinomial_expectation(N, p, lambda comp: st.pc_n(frac_arr(comp)) ** 2)
            Evar = multinomial_expectation(N, p, lambda comp: st.varpc_n(frac_arr(comp)))
            print("E[varpc_n] =", Evar, " Var(pc) =", Epc2 - S2 ** 2)
            ok = ok and Evar == Epc2 - S2 ** 2
        print("verdict:", "holds" if ok else "VIOLATES")
        return 0 if ok else 1
    return 0
