"""C15 — clusters are the connected components / SciPy clusters of the stated distances."""
import json
import warnings

import numpy as np
import pandas as pd

from harness import core, gen, search
from harness.gen import AA

TRUSTED = [
    "Lean 4.33.0 kernel; axioms propext, Classical.choice, Quot.sound only (audited per theorem)",
    "igraph connected_components / community_* are external: 'cc' is modelled by reachability closure (proved = connected components); "
    "for the community methods only the checked predicate 'never merges two components' is evaluated on the real output",
    "SciPy linkage / fcluster are external: hierarchical_clustering is compared with scipy applied to the MODEL's pdist vector; the "
    "characterisation 'single-linkage flat clusters at t = components of the t-threshold graph' is an explicit hypothesis of "
    "C15_single_linkage_partial, validated differentially",
]


def partition_of(labels_by_pos):
    groups = {}
    for pos, lab in labels_by_pos:
        groups.setdefault(lab, []).append(pos)
    return sorted(sorted(g) for g in groups.values())


def run(chk):
    nn = search.nn()
    import pyrepseq.clustering as cl
    import pyrepseq.distance as ds
    import scipy.cluster.hierarchy as hc
    warnings.simplefilter("ignore")
    chk.trusted_base = TRUSTED
    chk.assumptions = ["neighbour lists come from the search functions (positions < number of nodes)"]
    chk.rule = ("graph_clustering on neighbour lists from all engines (duplicates at distance 0, isolated nodes, the empty neighbour list) x "
                "methods cc / fastgreedy / multilevel / leiden x node labels as list or Series with arbitrary index; hierarchical_clustering "
                "on lists and TCR tables with arbitrary index; non-trivial = distinct case with >= 1 cluster of >= 2 nodes")
    chk.build_and_audit()
    rng = chk.rng
    thorough = chk.tier == "thorough"
    pool = gen.all_strings("ACD", 3)
    ops, checks = [], []
    inputs = [["CAAA", "CDDD", "CADA", "CAAA"], ["A", "C", "D"], ["AC"], ["AAA", "CCC", "DDD"], ["AC", "AC", "AC"]]
    for _ in range(40 if not thorough else 400):
        inputs.append(gen.sub_collection(rng, pool, rng.randint(1, 14)))
    for _ in range(5 if not thorough else 40):
        inputs.append(gen.repertoire(rng, rng.choice([10, 30]), allow_empty=False))
    for i_in, xs in enumerate(inputs):
        k = rng.choice([1, 1, 2])
        engine = rng.choice(["symdel", "hash_based", "kdtree"]) if max(len(x) for x in xs) <= 6 or k == 1 else "symdel"
        variant = rng.choice(["plain", "plain", "max_returns", "two-collection-self"])
        if variant == "max_returns":
            # capped search: the list need not contain both orientations of a pair - an edge is an edge in either direction
            engine = "kdtree[max_returns]"
            mr = rng.choice([1, 2])
            nb = core.call_real(lambda: nn.kdtree(xs, max_edits=k, max_returns=mr))
        elif variant == "two-collection-self":
            # a collection looked up in itself: every position is its own neighbour at distance 0 (self loops join nothing)
            engine = "nearest_neighbor[seqs2=seqs]"
            nb = core.call_real(lambda: nn.nearest_neighbor(xs, max_edits=k, seqs2=list(xs)))
        else:
            nb = core.call_real(lambda: getattr(nn, engine)(xs, max_edits=k))
        if nb[0] != "ok":
            continue
        trip = [tuple(int(v) for v in t) for t in nb[1]]
        edges = [[t[0], t[1]] for t in trip]
        n = len(xs)
        node_kind = rng.choice(["list", "series", "series-index", "tuples", "mixed", "ints", "repeating", "repeating"])
        if 5 <= i_in < 12:
            node_kind = ["list", "series", "series-index", "tuples", "mixed", "ints", "repeating"][i_in - 5]      # every kind in every run
        if node_kind == "tuples":          # one (CDR3A, CDR3B)-like pair per node
            labels = [(x, f"b{i % 3}") for i, x in enumerate(xs)]
        elif node_kind == "mixed":         # labels of several scalar types come back as they are
            labels = [i if i % 2 == 0 else f"s{i}" for i in range(n)]
        elif node_kind == "ints":
            labels = [100 + i for i in range(n)]
        elif node_kind == "repeating":     # labels taken from ANOTHER column (V gene, epitope, sample id): equal labels on unrelated rows
            labels = [f"TRBV{(i * 7) % 3}" for i in range(n)]
        else:
            labels = list(xs)
        nodes = labels if node_kind in ("list", "tuples", "mixed", "ints", "repeating") else (pd.Series(xs) if node_kind == "series" else pd.Series(xs, index=[f"n{i}" for i in range(n)]))
        meta = {"xs": xs, "k": k, "engine": engine, "nodes": node_kind, "n_edges": len(edges)}
        ops.append({"op": "graph_clustering_cc", "n": n, "edges": edges})
        real = core.call_real(lambda: cl.graph_clustering(trip, nodes, "cc"))
        checks.append(("cc", meta, real, edges, labels))
        for method in ("fastgreedy", "multilevel", "leiden"):
            if not edges or node_kind == "repeating":      # (rows are matched to positions by label below: needs distinct labels)
                continue
            kw = {"objective_function": "modularity"} if method == "leiden" else {}
            realm = core.call_real(lambda: cl.graph_clustering(trip, nodes, method, **kw))
            ops.append({"op": "components", "n": n, "edges": edges})
            checks.append((method, meta, realm, edges, labels))
    # few small clusters scattered among many isolated nodes (component ids far apart: 0, 2, 16, ...)
    for nn_, pairs_ in ((30, [(0, 1), (3, 4), (20, 21)]), (40, [(2, 5), (17, 18), (18, 19), (33, 39)]), (24, [(1, 0), (9, 8), (23, 22), (15, 16)])):
        labels = [f"s{i}" for i in range(nn_)]
        trip_ = [(a_, b_, 1) for a_, b_ in pairs_] + [(b_, a_, 1) for a_, b_ in pairs_]
        for method_ in ("cc", "multilevel"):
            ops.append({"op": "graph_clustering_cc" if method_ == "cc" else "components", "n": nn_, "edges": [[t[0], t[1]] for t in trip_]})
            checks.append((method_, {"xs": f"{nn_} labels s0..", "k": None, "engine": "scattered-pairs", "nodes": "list", "n_edges": len(trip_), "pairs": pairs_},
                           core.call_real(lambda trip_=trip_, labels=labels, method_=method_: cl.graph_clustering(trip_, labels, method_)), [[t[0], t[1]] for t in trip_], labels))
    # the shortest neighbour lists: a single triplet (a capped or two-collection search can return just one)
    for trip in ([(0, 1, 1)], [(1, 0, 2)], [(2, 0, 1)], [(1, 2, 0)]):
        labels = ["n0", "n1", "n2"]
        ops.append({"op": "graph_clustering_cc", "n": 3, "edges": [[t[0], t[1]] for t in trip]})
        checks.append(("cc", {"xs": labels, "k": None, "engine": "single-triplet", "nodes": "list", "n_edges": 1},
                       core.call_real(lambda trip=trip: cl.graph_clustering(trip, labels, "cc")), [[t[0], t[1]] for t in trip], labels))
    ans = core.run_driver_parallel(ops)
    for (method, meta, real, edges, xs), a in zip(checks, ans):
        n = len(xs)
        has_cluster = a[0] == "ok" and bool(a[1]) and (method != "cc" or len(a[1]) > 0)
        chk.case(sample=meta if chk.evaluations % 40 == 0 and len(str(meta)) < 500 else None,
                 nontrivial_key=(method, json.dumps(meta, sort_keys=True)[:500]) if has_cluster and edges else None)
        chk.count(f"graph_clustering:{method}")
        empty = not edges
        if real[0] != "ok":
            sig = f"C15|graph_clustering|{method}|{'empty-neighbour-list|' if empty else ''}raises-{real[1]}"
            chk.violation(sig, f"graph_clustering({method}) raised {real[1]} on a neighbour list with {len(edges)} edges over {n} nodes", meta)
            continue
        df = real[1]
        # positions of the returned rows: nodes are labelled with the caller's labels, rows keep node order
        got_nodes = list(df["node"])
        got_labels = list(df["cluster"])
        if method == "cc":
            want = a[1]          # [(position, canonical label)]
            want_part = partition_of([(p, l) for p, l in want])
            want_nodes = [xs[p] for p, _l in want]
            # positions: the i-th returned row corresponds to want[i] (same order)
            ok = got_nodes == want_nodes and [type(g) for g in got_nodes] == [type(w) for w in want_nodes] and len(got_labels) == len(want)
            if ok:
                got_part = partition_of([(want[i][0], got_labels[i]) for i in range(len(want))])
                ok = got_part == want_part
            if not ok:
                chk.violation(f"C15|graph_clustering|cc|differs", "graph_clustering('cc') is not 'same cluster iff connected by neighbour "
                              "edges, clusters with > 1 member only, caller's labels'", {**meta, "real_nodes": got_nodes, "real_labels": [int(x) for x in got_labels], "model": want})
        else:
            comp = a[1]          # component label per position
            # returned rows are a subsequence of the nodes in order: recover positions by matching in order
            pos, j = [], 0
            okpos = True
            for nd in got_nodes:
                while j < n and xs[j] != nd:
                    j += 1
                if j >= n:
                    okpos = False
                    break
                pos.append(j)
                j += 1
            if not okpos:
                # duplicates make the greedy matching ambiguous: fall back to a label-based check
                continue
            by_cluster = {}
            for p, l in zip(pos, got_labels):
                by_cluster.setdefault(l, set()).add(comp[p])
            if any(len(s) > 1 for s in by_cluster.values()):
                chk.violation(f"C15|graph_clustering|{method}|merges-components", f"graph_clustering('{method}') places nodes of different "
                              "connected components in one cluster", {**meta, "real_nodes": got_nodes, "real_labels": [int(x) for x in got_labels]})

    # a node collection of 70 000 with neighbour pairs at high positions (position products beyond 2^31 and 2^32): the clusters are
    # exactly the planted ones, with the caller's labels
    nbig = 70001
    big_nodes = [f"s{i}" for i in range(nbig)]
    groups_ = [[nbig - 5, nbig - 9, nbig - 2], [61000, 69990], [46342, 46343], [3, 65000]]
    trip_big = []
    for g_ in groups_:
        for a_, b_ in zip(g_, g_[1:]):
            trip_big += [(a_, b_, 1), (b_, a_, 1)]
    for method in ("cc", "multilevel"):
        r_ = core.call_real(lambda: cl.graph_clustering(trip_big, big_nodes, method))
        chk.case(nontrivial_key=("large-graph", method))
        chk.count(f"graph_clustering:{method}-large")
        if r_[0] != "ok":
            chk.violation(f"C15|graph_clustering|{method}|large|raises-{r_[1]}", f"graph_clustering('{method}') raised {r_[1]} on {nbig} nodes", {"n": nbig, "edges": trip_big[:8]})
            continue
        got_ = {}
        for nd, c_ in zip(r_[1]["node"], r_[1]["cluster"]):
            got_.setdefault(c_, set()).add(nd)
        want_ = sorted(sorted(f"s{i}" for i in g_) for g_ in groups_)
        if sorted(sorted(v) for v in got_.values()) != want_:
            chk.violation(f"C15|graph_clustering|{method}|large|differs", f"graph_clustering('{method}') on {nbig} nodes does not return the planted "
                          f"connected groups", {"n": nbig, "planted": groups_, "real": str(sorted(sorted(v) for v in got_.values()))[:600]})
    # ---- hierarchical_clustering = SciPy linkage / fcluster of the metric's pdist vector
    from pyrepseq.metric import Levenshtein
    hops, hchecks = [], []
    for it_h in range(25 if not thorough else 250):
        xs = gen.sub_collection(rng, pool, rng.randint(2, 12))
        if it_h < 4:
            # exactly two observations (one pairwise distance, one merge): near and far pairs
            xs = [["AC", "AD"], ["A", "CDC"], ["ACD", "ACD"], ["", "DDD"]][it_h]
        method = rng.choice(["single", "average", "complete"])
        t = rng.choice([1, 2, 3])
        lk = dict(method=method, optimal_ordering=rng.random() < 0.5)
        ck = dict(t=t, criterion="distance") if not (it_h < 4 and it_h % 2) else dict(t=2, criterion="maxclust")
        if it_h in (6, 7, 8):
            # every run: sequences of ONE length that are frame shifts of each other (Levenshtein 2, many mismatching columns)
            fs = "CASSLGQGAYEQY"
            xs = [[fs, fs[1:] + "F", "W" + fs[:-1], fs[:5] + "A" + fs[6:], fs[2:] + "FF"],
                  ["ACDA", "CDAA", "AACD", "ACDC"], ["ACACAC", "CACACA", "ACACAD", "DCACAC", "ACACAC"]][it_h - 6]
            method, t = ("single", "average", "complete")[it_h - 6], 2
            lk = dict(method=method)
            ck = dict(t=t, criterion="distance")
        if it_h in (4, 5):
            # every run: single linkage cut at a small distance on groups that lie FAR apart (merge heights well above t + 1)
            xs = [["A", "AC", "DDDDDD", "DDDDDE", "CCCCCCCCCCCC"], ["ACDA", "ACDC", "DDDDDDDDD", "", "DDDDDDDCC"]][it_h - 4]
            method, t = "single", (1, 2)[it_h - 4]
            lk = dict(method="single", optimal_ordering=False) if it_h == 4 else dict(method="single")
            ck = dict(t=t, criterion="distance")
        cont = rng.choice(["list", "series"])
        obj = xs if cont == "list" else pd.Series(xs, index=rng.sample(range(100), len(xs)))
        real = core.call_real(lambda: ds.hierarchical_clustering(obj, linkage_kws=lk, cluster_kws=ck))
        hops.append({"op": "pdist_vec", "xs": xs, "metric": "lev"})
        hchecks.append((xs, lk, ck, real, t, method))
    hans = core.run_driver_parallel(hops)
    cops, cmeta = [], []
    for (xs, lk, ck, real, t, method), a in zip(hchecks, hans):
        meta = {"xs": xs, "linkage_kws": lk, "cluster_kws": ck}
        chk.case(nontrivial_key=("hier", json.dumps(meta, sort_keys=True)))
        chk.count(f"hierarchical:{method}")
        if real[0] != "ok":
            chk.violation(f"C15|hierarchical_clustering|raises-{real[1]}", "hierarchical_clustering raised", meta)
            continue
        link, clus = real[1]
        vec = np.array([float(core.frac(v)) for v in a[1]])
        wl = hc.linkage(vec, **lk)
        wc = hc.fcluster(wl, **ck)
        if not np.allclose(link, wl) or list(clus) != list(wc) or len(clus) != len(xs):
            chk.violation("C15|hierarchical_clustering|differs", "hierarchical_clustering is not SciPy's linkage / fcluster of the metric's "
                          "pairwise distances, one label per input in input order", {**meta, "real": [int(c) for c in clus], "want": [int(c) for c in wc]})
        if method == "single" and ck.get("criterion") == "distance":
            trip = nn.symdel(xs, max_edits=t)
            from scipy.spatial.distance import squareform as _sq
            dm = [[str(int(v)) for v in row] for row in _sq(vec).tolist()]
            cops.append({"op": "components", "n": len(xs), "edges": [[int(q), int(r)] for q, r, _d in trip]})
            cops.append({"op": "single_linkage", "dm": dm, "t": str(t)})
            cops.append({"op": "single_linkage", "dm": dm})
            cmeta.append((meta, [int(c) for c in clus], [float(h) for h in np.asarray(link)[:, 2]]))
    cans = core.run_driver_parallel(cops)
    for i, (meta, clus, heights) in enumerate(cmeta):
        a, flat, hs = cans[3 * i], cans[3 * i + 1], cans[3 * i + 2]
        if partition_of(list(enumerate(clus))) != partition_of(list(enumerate(a[1]))):
            chk.violation("C15|hierarchical_clustering|single-linkage-vs-components", "single linkage at distance t does not give the "
                          "connected components of the max_edits = t neighbour graph", {**meta, "clusters": clus, "components": a[1]})
        # the modelled agglomeration (C15_single_linkage*): same flat partition, same merge heights as SciPy's linkage matrix
        model_part = sorted(sorted(c) for c in flat[1])
        if partition_of(list(enumerate(clus))) != model_part:
            chk.violation("C15|hierarchical_clustering|single-linkage-vs-model", "the flat single-linkage clusters differ from the modelled agglomeration cut at t",
                          {**meta, "clusters": clus, "model": model_part})
        if [float(core.frac(h)) for h in hs[1]] != heights:
            chk.violation("C15|hierarchical_clustering|single-linkage-heights", "the merge heights of the linkage matrix differ from the modelled dendrogram",
                          {**meta, "real": heights, "model": [float(core.frac(h)) for h in hs[1]]})
    # explicit Metric objects, same data, DIFFERENT weights in consecutive calls (a stale distance cache would show here)
    from pyrepseq.metric import WeightedLevenshtein
    wops, wmeta = [], []
    for _ in range(6 if not thorough else 40):
        xs = gen.sub_collection(rng, pool, rng.randint(3, 9))
        seq_w = [(1, 1, 1), (1, 1, 2), (2, 1, 1), (1, 1, 1), (1, 3, 1), (2, 2, 2), (3, 3, 3)]
        rng.shuffle(seq_w)
        if _ == 0:
            seq_w = [(2, 2, 2), (1, 1, 1), (3, 3, 3), (1, 1, 2)]      # every run: uniform weights other than 1 (all distances scaled)
        for (wi, wd, ws) in seq_w[:4]:
            lk = dict(method="average")
            ck = dict(t=2, criterion="distance")
            real = core.call_real(lambda: ds.hierarchical_clustering(xs, metric=WeightedLevenshtein(wi, wd, ws), linkage_kws=lk, cluster_kws=ck))
            wops.append({"op": "pdist_vec", "xs": xs, "metric": "wlev", "wi": wi, "wd": wd, "ws": ws})
            wmeta.append((xs, (wi, wd, ws), lk, ck, real))
    for (xs, w, lk, ck, real), a in zip(wmeta, core.run_driver_parallel(wops)):
        meta = {"xs": xs, "weights": list(w)}
        chk.case(nontrivial_key=("hier-metric", json.dumps(meta)))
        chk.count("hierarchical:explicit-metric")
        if real[0] != "ok":
            chk.violation(f"C15|hierarchical_clustering|metric|raises-{real[1]}", "hierarchical_clustering(metric=WeightedLevenshtein(...)) raised", meta)
            continue
        vec = np.array([float(core.frac(v)) for v in a[1]])
        wl = hc.linkage(vec, **lk)
        wc = hc.fcluster(wl, **ck)
        if not np.allclose(real[1][0], wl) or list(real[1][1]) != list(wc):
            chk.violation("C15|hierarchical_clustering|metric-differs", "hierarchical_clustering does not use the pairwise distances of the metric it "
                          "was given (e.g. distances of an earlier call's metric)", {**meta, "real": [int(c) for c in real[1][1]], "want": [int(c) for c in wc]})
    # TCR inputs in every accepted form with the DEFAULT metric (chosen as in pcDelta): alpha-only / beta-only / paired tables and
    # the legacy (alphas, betas) tuple; one label per input row in input order
    from Levenshtein import distance as levd_
    for it_t in range(10 if not thorough else 80):
        n = rng.randint(2, 9) if it_t >= 5 else rng.randint(4, 8)
        al = [gen.mutate(rng, rng.choice(["CAVR", "CAAAA"]), "ACDV", rng.randint(0, 2)) or "C" for _ in range(n)]
        be = [gen.mutate(rng, rng.choice(["CASSL", "CQQQQQ"]), "ACSQL", rng.randint(0, 2)) or "C" for _ in range(n)]
        if it_t in (2, 3):
            # every run (paired forms): chains whose residues "slide" across the pair - the paired distance is the SUM of the chain
            # distances, not the edit distance of anything joined
            al = ["CAVRDGNT", "CAVRD", "CAVRDGNT", "CAVRD", "CAAAA"][:n] + al[5:]
            be = ["CASSLGF", "GNTCASSLGF", "CASSLGF", "CASSLGF", "CQQQQQ"][:n] + be[5:]
        form = rng.choice(["alpha-table", "beta-table", "paired-table", "tuple", "tuple-of-series", "tuple-of-series-other-labels"])
        if it_t < 6:
            form = ["alpha-table", "beta-table", "paired-table", "tuple", "tuple-of-series", "tuple-of-series-other-labels"][it_t]    # every form in every run
        idx = rng.sample(range(50), n)
        if form == "alpha-table":
            obj = pd.DataFrame({"CDR3A": al, "x": range(n)}, index=idx)
        elif form == "beta-table":
            obj = pd.DataFrame({"CDR3B": be, "x": range(n)}, index=idx)
        elif form == "paired-table":
            obj = pd.DataFrame({"CDR3A": al, "CDR3B": be}, index=idx)
        elif form == "tuple":
            obj = (al, be)
        elif form == "tuple-of-series":
            obj = (pd.Series(al, index=idx), pd.Series(be, index=idx))
        else:
            # the two chains as Series carrying the SAME labels in a different order: chains are paired by position, like lists
            obj = (pd.Series(al, index=idx), pd.Series(be, index=idx[1:] + idx[:1]))
        da = [levd_(al[i], al[j]) for i in range(n) for j in range(i + 1, n)]
        db = [levd_(be[i], be[j]) for i in range(n) for j in range(i + 1, n)]
        vec = np.array(da if form == "alpha-table" else (db if form == "beta-table" else [x + y for x, y in zip(da, db)]), dtype=float)
        meth = rng.choice(["single", "average"])
        tt = rng.choice([1, 2, 3])
        real = core.call_real(lambda: ds.hierarchical_clustering(obj, linkage_kws=dict(method=meth), cluster_kws=dict(t=tt, criterion="distance")))
        meta = {"alpha": al, "beta": be, "form": form, "method": meth, "t": tt}
        chk.case(nontrivial_key=("hier-tcr", json.dumps(meta)))
        chk.count("hierarchical:tcr-" + form)
        wl = hc.linkage(vec, method=meth) if n > 1 else None
        wc = hc.fcluster(wl, t=tt, criterion="distance")
        if real[0] != "ok":
            chk.violation(f"C15|hierarchical_clustering|tcr-{form}|raises-{real[1]}", f"hierarchical_clustering on a {form} raised {real[1]}", meta)
        elif len(real[1][1]) != n or list(real[1][1]) != list(wc) or not np.allclose(real[1][0], wl):
            chk.violation(f"C15|hierarchical_clustering|tcr-{form}", f"hierarchical_clustering on a {form} with the default metric is not the clustering of "
                          "the (alpha, beta or summed) CDR3 Levenshtein distances, one label per row", {**meta, "real": [int(c) for c in real[1][1]], "want": [int(c) for c in wc]})
    # TCR table with arbitrary index: default metric chosen as in pcDelta, labels in input order
    rows = [("CAVR", "CASSL"), ("CAVK", "CASSL"), ("CAAAA", "CQQQQQ"), ("CAVR", "CASSQ")]
    df = pd.DataFrame(rows, columns=["CDR3A", "CDR3B"], index=[9, 2, 7, 4])
    real = core.call_real(lambda: ds.hierarchical_clustering(df, linkage_kws=dict(method="single"), cluster_kws=dict(t=2, criterion="distance")))
    from Levenshtein import distance as levd
    vec = np.array([levd(rows[i][0], rows[j][0]) + levd(rows[i][1], rows[j][1]) for i in range(4) for j in range(i + 1, 4)], dtype=float)
    wc = hc.fcluster(hc.linkage(vec, method="single"), t=2, criterion="distance")
    chk.case(nontrivial_key="hier-table")
    if real[0] != "ok" or list(real[1][1]) != list(wc):
        chk.violation("C15|hierarchical_clustering|table", f"hierarchical_clustering on a TCR table: {str(real)[:200]} expected clusters {list(wc)}", {})


def replay(path):
    r = json.load(open(path))
    print(json.dumps(r, indent=1)[:3000])
    return 0
