"""C07 — Hamming mode: exactly the equal-length pairs within k mismatches, original positions."""
import itertools
import json

from harness import core, gen, search
from harness.gen import AA

TRUSTED = [
    "Lean 4.33.0 kernel; axioms propext, Classical.choice, Quot.sound only (audited per theorem)",
    "rapidfuzz Hamming.distance (equal lengths) modelled by `mismatches`; `_hamming_replacement` by `ham`",
    "SciPy KDTree ball query modelled by the integer predicate (see C04)",
    "correspondence check (harness + compiled driver): differential, bounded by its generators",
]


def run(chk):
    nn = search.nn()
    chk.trusted_base = TRUSTED
    chk.assumptions = ["strings over ACDEFGHIKLMNPQRSTVWY for hash_based / kdtree", "Python run without -O"]
    chk.rule = ("all four engines on mixed-length lists: every permutation (interleaving of length classes) of small multisets, "
                "exhaustive small-alphabet pools, random mixed-length repertoires, pairs one indel apart (must not be reported); "
                "non-trivial = distinct input with >= 1 reported pair")
    chk.build_and_audit()
    rng = chk.rng
    thorough = chk.tier == "thorough"
    b = search.Batch(chk, "corr:hamming engines")

    def add(label, xs, k, model=True, comp=1, engines=("symdel", "hash_based", "kdtree")):
        sop = {"op": "brute_self", "xs": xs, "k": k, "mode": "ham"}
        meta = {"xs": xs, "k": k, "compression": comp}
        if "symdel" in engines:
            mop = {"op": "symdel_self", "xs": xs, "k": k, "mode": "ham"} if model and len(xs) <= 45 else None
            b.add("symdel-ham|" + label, lambda: nn.symdel(xs, max_edits=k, custom_distance="hamming"), mop, sop, meta,
                  factory=lambda c: (lambda: nn.symdel(c, max_edits=k, custom_distance="hamming"),
                                     {"op": "brute_self", "xs": c, "k": k, "mode": "ham"}))
            b.add("nearest_neighbor-ham|" + label, lambda: nn.nearest_neighbor(xs, max_edits=k, custom_distance="hamming"),
                  None, sop, meta)
        if "hash_based" in engines and k <= 2:
            small = model and k == 1 and max(len(x) for x in xs) <= 6
            mop = {"op": "lookupdb", "ref": xs, "qs": xs, "k": k, "mode": "ham", "pdist": True, "A": AA} if small else None
            b.add("hash_based-ham|" + label, lambda: nn.hash_based(xs, max_edits=k, custom_distance="hamming"), mop, sop, meta)
        if "kdtree" in engines:
            mop = {"op": "kdtree", "xs": xs, "k": k, "c": comp, "A": AA, "mode": "ham"} if model else None
            b.add("kdtree-ham|" + label, lambda: nn.kdtree(xs, max_edits=k, custom_distance="hamming", compression=comp),
                  mop, sop, meta,
                  factory=lambda c: (lambda: nn.kdtree(c, max_edits=k, custom_distance="hamming", compression=comp),
                                     {"op": "brute_self", "xs": c, "k": k, "mode": "ham"}))

    def add_two(label, ref, qs, k):
        sop = {"op": "brute_cross", "ref": ref, "qs": qs, "k": k, "mode": "ham"}
        small = max(len(x) for x in ref + qs) <= 6 and len(ref) <= 15
        mop = {"op": "symdel_lookup", "ref": ref, "qs": qs, "k": k, "mode": "ham"} if small else None
        meta = {"ref": ref, "qs": qs, "k": k}
        b.add("symdel2-ham|" + label, lambda: nn.symdel(ref, max_edits=k, custom_distance="hamming", seqs2=qs), mop, sop, meta)
        b.add("SymdelDB.lookup-ham|" + label, lambda: nn.SymdelDB(ref, k).lookup(qs, custom_distance="hamming"), None, sop, meta)
        # the wrapper with the second collection (by keyword, and with every argument given positionally)
        b.add("nearest_neighbor2-ham|" + label, lambda: nn.nearest_neighbor(ref, max_edits=k, custom_distance="hamming", seqs2=qs), None, sop, meta)
        b.add("nearest_neighbor2-positional-ham|" + label, lambda: nn.nearest_neighbor(ref, k, None, 1, "hamming", float("inf"), "triplets", qs), None, sop, meta)

    # all interleavings of small mixed-length multisets
    bases = [["CAAAD", "CAAA", "CADA", "CAAAE"], ["AC", "A", "AD", "C", "CC"], ["", "A", "C", "AC", "AD"],
             ["ACD", "ACD", "AC", "ADD", "A"], ["AAAA", "AAAC", "AAA", "AAC", "AA", "AC"]]
    for base in bases:
        perms = list(itertools.permutations(base))
        if not thorough and len(perms) > 60:
            perms = rng.sample(perms, 60)
        for p in perms:
            add("interleavings", list(p), rng.choice([1, 2]), comp=rng.choice([1, 2]))
    L = 4 if thorough else 3
    for alpha in ("ACD", "AY"):
        pool = gen.all_strings(alpha, L)
        for k in (1, 2):
            add(f"E({alpha})-all", list(pool), k, model=len(pool) <= 45)
        for _ in range(30 if not thorough else 300):
            xs = gen.sub_collection(rng, pool, rng.randint(1, 12))
            add(f"E({alpha})-sub", xs, rng.randint(1, 3), comp=rng.choice([1, 2, 3]))
            if rng.random() < 0.5:
                add_two(f"E({alpha})", xs, gen.sub_collection(rng, pool, rng.randint(1, 8)), rng.randint(1, 2))
    for _ in range(8 if not thorough else 60):
        xs = gen.repertoire(rng, rng.choice([5, 30, 80]), minlen=8, maxlen=11, allow_empty=True)
        k = rng.choice([1, 2, 3])
        add("R-mixed", xs, k, model=len(xs) <= 12, comp=rng.choice([1, 2]),
            engines=("symdel", "kdtree") if k > 1 else ("symdel", "hash_based", "kdtree"))
        add_two("R-mixed", xs[: len(xs) // 2 + 1], xs[len(xs) // 3:], k)
    # several worker processes in Hamming mode: every length class is searched completely, whatever its size modulo n_cpu
    for _ in range(4 if not thorough else 20):
        lens = rng.sample([3, 4, 5, 6], 3)
        xs = []
        for L_, cnt in zip(lens, (rng.choice([5, 7]), rng.choice([3, 4]), rng.choice([2, 5]))):
            root = "".join(rng.choice("ACD") for _ in range(L_))
            xs += [gen.mutate_sub(rng, root, "ACD", rng.randint(0, 2)) if hasattr(gen, "mutate_sub") else
                   "".join(c if rng.random() > 0.3 else rng.choice("ACD") for c in root) for _ in range(cnt)]
        rng.shuffle(xs)
        ncpu = rng.choice([2, 3, 4])
        k = rng.choice([1, 2])
        sop = {"op": "brute_self", "xs": xs, "k": k, "mode": "ham"}
        b.add("kdtree-ham-parallel|mixed-lengths", lambda xs=xs, k=k, ncpu=ncpu: nn.kdtree(xs, max_edits=k, custom_distance="hamming", n_cpu=ncpu),
              None, sop, {"xs": xs, "k": k, "n_cpu": ncpu})
    # ONE length class only, with frame-shifted pairs (one deletion + one insertion: Levenshtein 2, Hamming up to the length):
    # equal length does not make the two distances equal
    for _ in range(8 if not thorough else 60):
        L = rng.randint(4, 8)
        root = "".join(rng.choice("ACDQS") for _ in range(L))
        fam = [root, root[1:] + rng.choice("ACD"), rng.choice("ACD") + root[:-1], root[:2] + root[3:] + "F", gen.mutate(rng, root, "ACDQS", 1)]
        fam = [x for x in fam if len(x) == L] + ["".join(rng.choice("ACDQS") for _ in range(L)) for _ in range(rng.randint(0, 3))]
        k = rng.choice([2, 2, 3])
        add("one-length-frameshift", fam, k, model=False, comp=rng.choice([1, 2]),
            engines=("symdel", "kdtree") if L > 6 else ("symdel", "hash_based", "kdtree"))
        add_two("one-length-frameshift", fam[: len(fam) // 2 + 1], fam[1:], k)
    chk.exhaustive = True
    b.run()
    # histories on one database object mixing the two modes (each answer must equal a fresh one-shot search in ITS mode)
    hops, hexp = [], []
    for _ in range(10 if not thorough else 80):
        pool = gen.all_strings("ACD", 3)
        ref = gen.sub_collection(rng, pool, rng.randint(2, 8))
        k = rng.randint(1, 2)
        st0, db = core.call_real(lambda: nn.SymdelDB(ref, k))
        if st0 != "ok":
            continue
        shared = gen.sub_collection(rng, pool, rng.randint(1, 4))
        for step in range(rng.randint(2, 5)):
            qs = shared if rng.random() < 0.6 else gen.sub_collection(rng, pool, rng.randint(1, 4))
            mode = rng.choice(["lev", "ham"])
            kw = {"custom_distance": "hamming"} if mode == "ham" else {}
            hexp.append((ref, qs, k, mode, step, core.call_real(lambda: core.canon_trips(db.lookup(qs, **kw)))))
            hops.append({"op": "brute_cross", "ref": ref, "qs": qs, "k": k, "mode": mode})
    for (ref, qs, k, mode, step, real), a in zip(hexp, core.run_driver_parallel(hops)):
        spec = ("ok", core.canon_model_trips(a[1]))
        chk.case(nontrivial_key=("mixed-history", str(ref), str(qs), k, mode, step) if spec[1] else None)
        if real != spec:
            chk.violation(search.sig_of("C07", "SymdelDB.mixed-mode-history", real, spec),
                          f"SymdelDB.lookup in mode {mode} (step {step} of a history mixing modes) differs from a fresh one-shot search",
                          {"ref": ref, "qs": qs, "k": k, "mode": mode, "step": step, "real": str(real)[:1500], "spec": str(spec)[:1500]})


def replay(path):
    nn = search.nn()
    r = json.load(open(path))
    print(json.dumps({k: (v if len(str(v)) < 1500 else str(v)[:1500]) for k, v in r.items()}, indent=1))
    meta = r.get("meta")
    if not meta or "xs" not in meta:
        return 0
    xs, k = meta["xs"], meta["k"]
    sp = core.canon_model_trips(core.run_driver([{"op": "brute_self", "xs": xs, "k": k, "mode": "ham"}])[0][1])
    ok = True
    for name, fn in (("symdel", nn.symdel), ("hash_based", nn.hash_based), ("kdtree", nn.kdtree)):
        real = core.call_real(lambda: core.canon_trips(fn(xs, max_edits=k, custom_distance="hamming")))
        print(name, "agrees" if real == ("ok", sp) else f"DIFFERS: {str(real)[:300]}")
        ok = ok and real == ("ok", sp)
    print("spec:", sp[:20])
    print("verdict:", "holds" if ok else "VIOLATES")
    return 0 if ok else 1
