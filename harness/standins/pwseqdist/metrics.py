"""stand-in metric handle"""


def nb_vector_tcrdist(*args, **kwargs):  # pragma: no cover - only used as a token
    raise NotImplementedError("stand-in: use pwseqdist.apply_pairwise_sparse")
