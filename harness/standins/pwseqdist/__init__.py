"""Vendored STAND-IN for the optional dependency `pwseqdist`, which is absent from this sandbox.

Only the call made by pyrepseq.nn.nearest_neighbor_tcrdist is provided:
    apply_pairwise_sparse(metric=metrics.nb_vector_tcrdist, seqs=..., pairs=..., ntrim, ctrim,
                          dist_weight, gap_penalty, fixed_gappos, use_numba)
The distance is a documented, deterministic, integer-valued gap-penalised mismatch count on the
trimmed CDR3s — NOT the real TCRdist substitution matrix. It is symmetric with d(x, x) = 0:
    a, b trimmed (s[ntrim:len(s)-ctrim]);  if len(a) == len(b): dist_weight * mismatches(a, b)
    otherwise: gap_penalty * |len(a) - len(b)| + dist_weight * min over gap positions g of the
    mismatches of the shorter string against the longer one with a gap block inserted at g.
The correspondence harness calls the same function (`cdr3_distance`) to build the table it hands to
the Lean model, so what is being checked is pyrepseq's own logic around this dependency.
"""
import numpy as np

from . import metrics  # noqa


def cdr3_distance(s1, s2, ntrim=3, ctrim=2, dist_weight=3, gap_penalty=12, **_ignored):
    a = s1[ntrim:len(s1) - ctrim] if ctrim > 0 else s1[ntrim:]
    b = s2[ntrim:len(s2) - ctrim] if ctrim > 0 else s2[ntrim:]
    if len(a) > len(b):
        a, b = b, a
    gap = len(b) - len(a)
    if gap == 0:
        return dist_weight * sum(1 for x, y in zip(a, b) if x != y)
    best = None
    for g in range(len(a) + 1):
        aligned = b[:g] + b[g + gap:]
        mm = sum(1 for x, y in zip(a, aligned) if x != y)
        best = mm if best is None else min(best, mm)
    return gap_penalty * gap + dist_weight * best


def apply_pairwise_sparse(metric, seqs, pairs, **kwargs):
    assert metric is metrics.nb_vector_tcrdist, "stand-in supports nb_vector_tcrdist only"
    pairs = np.asarray(pairs)
    out = np.zeros(len(pairs), dtype=np.int64)
    for n, (i, j) in enumerate(pairs):
        out[n] = cdr3_distance(str(seqs[int(i)]), str(seqs[int(j)]), **kwargs)
    return out
